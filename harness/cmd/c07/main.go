// C07: a response depends only on its own request, not on earlier or concurrent ones.
//
// TLC checks spec/HttpState.tla (pool of parameter objects with residual
// values, query cache, APQ cache) and exports the request-level labelled
// state graph.  Edge-covering histories and random walks over that graph are
// replayed sequentially on real servers (every transport, LRU query cache,
// APQ) over a single kept-alive connection with GOMAXPROCS(1), so that
// sync.Pool reuse is the common case (observed through the address of the
// *RawParams the first OperationParameterMutator receives; no reuse = vacuous).
// After each request: the parameters that mutator saw must be the request's
// own, and the answer must equal the answer of a freshly constructed server
// to that request alone (APQ hash-only lookups: to the request with the
// registered text).  The same histories are then fired by 8 concurrent
// clients at one server inside a copy of this driver built with -race.
//
// The header instance (MC_HttpStateHdr) makes the transports' configured
// ResponseHeaders part of the server state and gives requests an Accept
// dimension: its edge cover (source state = configuration x media type
// negotiated last) is replayed on servers constructed with each configuration.
// gen.go serves CONCURRENT requests against GENERATED code in the orders of
// their Execute / Write steps that MC_HttpStateHeld exports.
package main

import (
	"encoding/json"
	"fmt"
	"io"
	"log"
	"math/rand"
	"os"
	"os/exec"
	"path/filepath"
	"runtime"
	"strings"
	"sync"
	"time"

	"verifharness/vlib"
)

// step is one request of a history together with what the specification says about it.
type step struct {
	Act Act `json:"act"`
}

// hist is one history: the configuration its server is constructed with and the requests.
type hist struct {
	Cfg   string `json:"cfg"`
	Steps []step `json:"steps"`
}

type finding struct {
	Key    string `json:"key"`
	Detail string `json:"detail"`
	Scen   any    `json:"scenario"`
}

type stats struct {
	Requests   int64            `json:"requests"`
	Histories  int64            `json:"histories"`
	PostSeen   int64            `json:"post_requests_logged"`
	Reuse      int64            `json:"pool_reuse_observed"`
	ApqHits    int64            `json:"apq_hits"`
	PerTr      map[string]int64 `json:"per_transport"`
	PerOut     map[string]int64 `json:"per_outcome"`
	OracleRuns int              `json:"fresh_server_oracle_runs"`
	PerCfg     map[string]int64 `json:"per_server_config"`
	// fresh-server answers whose status / Content-Type are not what the model's
	// negotiation function prescribes (not a C07 verdict: both sides of the
	// isolation comparison come from the code; reported in the evidence)
	PredChecked  int64  `json:"model_predictions_checked"`
	PredMismatch int64  `json:"model_predictions_not_met_by_fresh_server"`
	PredSample   string `json:"model_prediction_mismatch_sample,omitempty"`
}

// runner replays histories against live servers and judges every answer.
type runner struct {
	mu       sync.Mutex
	or       *oracle
	st       stats
	ptrs     map[string]bool
	findings []finding
	nextID   int64
	check    *vlib.Check
	conc     bool // concurrent mode: APQ state depends on the interleaving
	deferred []finding
}

func newRunner() *runner {
	return &runner{or: &oracle{memo: map[string]Resp{}}, ptrs: map[string]bool{}, st: stats{PerTr: map[string]int64{}, PerOut: map[string]int64{}, PerCfg: map[string]int64{}}}
}

func (rn *runner) report(key, detail string, scen any) {
	rn.mu.Lock()
	if len(rn.findings) < 40 {
		rn.findings = append(rn.findings, finding{key, detail, scen})
	}
	rn.mu.Unlock()
}

func xreqOf(r AReq) string {
	if r.Tr == "WS" {
		return "ws"
	}
	return r.label()
}

func normNull(s string) string {
	if s == "{}" {
		return "null"
	}
	return s
}

// judge one request of a history.  prev = the earlier requests (for the report).
func (rn *runner) judge(cfg string, a Act, cr Concrete, resp Resp, seen []Seen, prev []AReq, where string) {
	r := a.R
	scen := map[string]any{"where": where, "server_config": cfg, "history_before": prev, "request": r, "concrete": cr, "answer": resp, "seen": seen, "specification": a}
	// (i) the parameters handed to CreateOperationContext are the request's own
	wantEntries := 1
	if a.Out == "decodeErr" {
		wantEntries = 0
	}
	if len(seen) != wantEntries {
		rn.report(fmt.Sprintf("mutator-calls{tr=%s,out=%s}", r.Tr, a.Out), fmt.Sprintf("the parameter mutators ran %d times for %s, expected %d", len(seen), r.label(), wantEntries), scen)
	}
	for _, s := range seen {
		if r.Tr == "POST" {
			rn.mu.Lock()
			rn.st.PostSeen++
			if rn.ptrs[s.Ptr] {
				rn.st.Reuse++
			}
			rn.ptrs[s.Ptr] = true
			rn.mu.Unlock()
		}
		wantX := canon([]string{xreqOf(r)})
		if r.Tr == "FORM" {
			wantX = "null" // UrlEncodedForm replaces the object that held the headers
		}
		type fld struct{ name, got, want string }
		for _, f := range []fld{
			{"query", s.Query, texts[a.Own.Q]},
			{"operationName", s.Opn, a.Own.Opn},
			{"variables", normNull(s.Vars), ownJSON(a.Own.Vars)},
			{"extensions", normNull(s.Ext), ownJSON(a.Own.Ext)},
			{"headers", s.XReq, wantX},
		} {
			if f.got != f.want {
				rn.report(fmt.Sprintf("own-params{tr=%s,field=%s}", r.Tr, f.name),
					fmt.Sprintf("request %s after %v: CreateOperationContext received %s = %q, the request's own is %q", r.label(), labels(prev), f.name, f.got, f.want), scen)
			}
		}
	}
	// (ii) the answer equals the answer of a fresh server to this request alone
	var allowed []Resp
	var names []string
	add := func(q AReq, name string) bool {
		o, err := rn.or.alone(concretiseOn(cfg, q, xreqOf(r)))
		if d, ok := err.(*disagree); ok {
			rn.deferred = append(rn.deferred, finding{"fresh-servers-disagree{tr=" + q.Tr + "}", "request " + q.label() + ": " + d.Error(), map[string]any{"request": q, "answers": []Resp{d.a, d.b}}})
		} else if err != nil {
			vlib.Infra("fresh-server oracle for %s: %v", q.label(), err)
		}
		allowed = append(allowed, o)
		names = append(names, name)
		return true
	}
	hashOnly := r.Q == "-" && strings.HasPrefix(r.Ext, "H:")
	rn.mu.Lock()
	if rn.conc {
		add(r, "alone")
		if hashOnly {
			q := r
			q.Q = strings.TrimPrefix(r.Ext, "H:")
			add(q, "alone with the registered text")
		}
	} else if a.ApqHit != "" {
		q := r
		q.Q = a.ApqHit
		add(q, "alone with the registered text")
		rn.st.ApqHits++
	} else {
		add(r, "alone")
	}
	rn.st.Requests++
	rn.st.PerTr[r.Tr]++
	rn.st.PerOut[a.Out]++
	if cfg == "" {
		rn.st.PerCfg["none"]++
	} else {
		rn.st.PerCfg[cfg]++
	}
	// does the fresh server do what the model's negotiation function says?
	if !rn.conc && a.ApqHit == "" && len(allowed) == 1 && a.Ct != "" && !r.isWS() {
		rn.st.PredChecked++
		o := allowed[0]
		bad := ""
		if got := strings.Join(o.Header["Content-Type"], ","); got != ctName(a.Ct) {
			bad = fmt.Sprintf("Content-Type %q, model %q", got, ctName(a.Ct))
		}
		if (a.St == "200" || a.St == "400" || a.St == "422") && fmt.Sprint(o.Status) != a.St {
			bad += fmt.Sprintf(" status %d, model %s", o.Status, a.St)
		}
		if bad != "" {
			rn.st.PredMismatch++
			if rn.st.PredSample == "" {
				rn.st.PredSample = fmt.Sprintf("config %q request %s alone: %s", cfg, r.label(), bad)
			}
		}
	}
	dfd := rn.deferred
	rn.deferred = nil
	rn.mu.Unlock()
	for _, f := range dfd {
		rn.report(f.Key, f.Detail, f.Scen)
	}
	ok := false
	for _, o := range allowed {
		if o.key() == resp.key() {
			ok = true
		}
	}
	if !ok {
		scen["fresh_server_answers"] = allowed
		key := fmt.Sprintf("isolation{tr=%s,out=%s}", r.Tr, a.Out)
		if len(allowed) > 0 && allowed[0].Body == resp.Body && len(allowed[0].Frames) == 0 {
			key = fmt.Sprintf("isolation-headers{tr=%s,out=%s}", r.Tr, a.Out) // only status / headers differ
		}
		cfgNote := ""
		switch cfg {
		case "":
		case "map":
			cfgNote = " (server constructed with graphql.MapCache as query cache)"
		case "nocache":
			cfgNote = " (server constructed without a query cache)"
		default:
			cfgNote = fmt.Sprintf(" (server constructed with ResponseHeaders %s)", canon(cfgHeaders(cfg)))
		}
		if len(prev) == 0 && !rn.conc {
			cfgNote += " - the FIRST request to a newly constructed server, in a process that has constructed and used other servers before: what it remembers is process-global"
		}
		rn.report(key,
			fmt.Sprintf("request %s after %v%s is answered\n  %s\na fresh server answers (%s)\n  %s", r.label(), labels(prev), cfgNote, resp.key(), strings.Join(names, " | "), allowed[0].key()), scen)
	}
}

// fail ends the run on a harness-level problem (exit 2) - unless violations
// were already observed, which are then reported first (exit 1): a server
// that stops answering after a history that already produced wrong answers
// is not an infrastructure problem.
func (rn *runner) fail(format string, a ...any) {
	rn.mu.Lock()
	fs := rn.findings
	rn.mu.Unlock()
	if len(fs) > 0 && rn.check == nil && os.Getenv("C07_OUT") != "" {
		// concurrent child: hand the findings to the parent
		ob, _ := json.Marshal(concOutput{Stats: rn.st, Findings: fs})
		_ = os.WriteFile(os.Getenv("C07_OUT"), ob, 0o644)
		fmt.Fprintf(os.Stderr, "stopped early: "+format+"\n", a...)
		os.Exit(0)
	}
	if len(fs) == 0 || rn.check == nil {
		vlib.Infra(format, a...)
	}
	for _, f := range fs {
		rn.check.Violate(f.Key, f.Detail, f.Scen)
	}
	fmt.Fprintf(os.Stderr, "stopped early: "+format+"\n", a...)
	rn.check.AddTraces(rn.st.Histories)
	rn.check.AddEvals(rn.st.Requests)
	rn.check.Finish()
}

// twinFamily mirrors Family in spec/HttpState.tla.
func twinFamily(t string) string {
	if len(t) == 3 && t[0] == 'T' {
		if t == "TF1" {
			return "FA"
		}
		return "F" + t[1:2]
	}
	return t
}

func (r AReq) isWS() bool { return r.Tr == "WS" }

func labels(rs []AReq) []string {
	out := make([]string, len(rs))
	for i, r := range rs {
		out[i] = r.label()
	}
	return out
}

// replay runs one history on one freshly started server (= the model's Init).
func (rn *runner) replay(hi hist, where string, ls *liveServer) {
	h := hi.Steps
	own := ls == nil
	if own {
		ls = startServerCfg(hi.Cfg)
		defer ls.close()
	}
	c := newClient(ls)
	defer c.close()
	var prev []AReq
	for _, s := range h {
		rn.mu.Lock()
		rn.nextID++
		id := fmt.Sprintf("r%d", rn.nextID)
		rn.mu.Unlock()
		cr := concretiseOn(hi.Cfg, s.Act.R, xreqOf(s.Act.R))
		resp, seen, err := c.do(cr, id)
		if err != nil {
			rn.fail("%s: request %s after %v: %v", where, s.Act.R.label(), labels(prev), err)
		}
		rn.judge(ls.cfg, s.Act, cr, resp, seen, prev, where)
		prev = append(prev, s.Act.R)
	}
	if own {
		// the configuration the transports were constructed with is the harness' own
		// object: no request may have written it (ConfigImmutable)
		if w := ls.configWritten(); len(w) > 0 {
			rn.report(fmt.Sprintf("config-written{cfg=%s}", ls.cfg),
				fmt.Sprintf("after the history %v the ResponseHeaders map the transport was constructed with holds %v; it was constructed with %s",
					labels(prev), w, canon(cfgHeaders(ls.cfg))),
				map[string]any{"where": where, "server_config": ls.cfg, "history": prev, "written": w})
		}
	}
	rn.mu.Lock()
	rn.st.Histories++
	rn.mu.Unlock()
}

// ------------------------------------------------------------------ main

func main() {
	log.SetOutput(io.Discard)
	if os.Getenv("C07_MODE") == "conc" {
		concurrentChild()
		return
	}
	if os.Getenv("C07_MODE") == "oracle1" {
		oracleProcess()
		return
	}
	c := vlib.NewCheck("C07", "model_checking")
	tStart := time.Now()
	thorough := vlib.Tier() == "thorough"
	rng := rand.New(rand.NewSource(vlib.Seed()))

	if rp := os.Getenv("VERIF_REPLAY"); rp != "" {
		replayFile(c, rp)
		return
	}

	// ---- generated probe servers (for gen.go) are built while TLC runs
	probeVs := genVariants(thorough)
	type built struct {
		bins map[string]string
		err  error
	}
	raceBuilt := make(chan string, 1)
	go func() { raceBuilt <- buildRaceDriver() }()
	probesCh := make(chan built, 1)
	go func() {
		bins, err := vlib.BuildProbes("exec", probeVs)
		probesCh <- built{bins, err}
	}()

	// ---- TLC.  Lane A (one worker): sequential model with edge export, header instance with edge export,
	// three requests in flight with schedule export.  Lane B (three workers): two requests in flight.
	// Thorough: the negative configurations afterwards.
	seqCfg := "MC_HttpState.cfg"
	if thorough {
		seqCfg = "MC_HttpStateFull.cfg"
	}
	var tlcMu sync.Mutex
	tlcRes := map[string]*vlib.TLCResult{}
	runTLC := func(name, cfg string, workers int, cov bool) {
		res, err := vlib.RunTLC(vlib.TLCOpts{Module: "MC_HttpState", Config: cfg, Workers: workers, Timeout: 15 * time.Minute,
			Coverage: cov, Scratch: vlib.Work("C07", "tlc-"+name), HeapGB: 5})
		if err != nil {
			vlib.Infra("TLC %s: %v", name, err)
		}
		tlcMu.Lock()
		tlcRes[name] = res
		tlcMu.Unlock()
	}
	laneA, laneB := make(chan struct{}), make(chan struct{})
	go func() {
		defer close(laneA)
		runTLC("seq", seqCfg, 1, true)
		runTLC("hdr", "MC_HttpStateHdr.cfg", 1, false)
		runTLC("held", "MC_HttpStateHeld.cfg", 1, false)
		runTLC("twin", "MC_HttpStateTwin.cfg", 1, false)
		runTLC("ws", "MC_HttpStateWs.cfg", 1, false)
	}()
	negNames := []string{}
	if thorough {
		negNames = []string{"q", "opn", "vars", "ext", "hdr", "rt", "early", "key", "merge", "bufpool", "bufpool_seq", "fold", "fold_nocache", "wsshared"}
	}
	go func() { // lane B goes on while the histories are replayed
		defer close(laneB)
		runTLC("conc", "MC_HttpStateConc.cfg", 3, false)
		<-laneA
		for i := 0; i < len(negNames); i += 4 { // small; four at a time to stay within the process budget
			var wg sync.WaitGroup
			for _, n := range negNames[i:min(i+4, len(negNames))] {
				wg.Add(1)
				go func(n string) {
					defer wg.Done()
					runTLC("neg_"+n, "MC_HttpState_neg_"+n+".cfg", 1, false)
				}(n)
			}
			wg.Wait()
		}
	}()
	modelOK := func(name string) *vlib.TLCResult {
		tlcMu.Lock()
		r := tlcRes[name]
		tlcMu.Unlock()
		if r == nil {
			vlib.Infra("TLC %s did not run", name)
		}
		if !r.OK {
			vlib.Infra("TLC on the model alone failed (%s): specification error, not a verdict about the code:\n%s", name, r.Violation)
		}
		c.AddStates(r.Distinct, r.Generated)
		return r
	}
	<-laneA
	seq, hdr, held := modelOK("seq"), modelOK("hdr"), modelOK("held")
	twin, wsm := modelOK("twin"), modelOK("ws")
	modelMutants := map[string]string{}
	// finishModels waits for lane B: two requests in flight, the negative configurations
	finishModels := func() {
		<-laneB
		modelOK("conc")
		for _, f := range negNames {
			tlcMu.Lock()
			r := tlcRes["neg_"+f]
			tlcMu.Unlock()
			if r == nil {
				vlib.Infra("TLC neg_%s did not run", f)
			}
			viol := "none"
			if !r.OK {
				viol = "unknown"
				for _, inv := range []string{"OwnParams", "Isolation", "CacheTransparent", "WsFrameOwn"} {
					if strings.Contains(r.Violation, "Invariant "+inv+" is violated") {
						viol = inv
					}
				}
			}
			modelMutants[f] = viol
			// Headers and ReadTime are assigned before every use; a pooled response buffer is invisible sequentially
			wantViol := f != "hdr" && f != "rt" && f != "bufpool_seq" && f != "fold_nocache"
			if (viol != "none") != wantViol || viol == "unknown" {
				vlib.Infra("negative configuration neg_%s: expected violation=%v, TLC says %q\n%s", f, wantViol, viol, r.Violation)
			}
		}
	}
	for _, a := range []string{"Start", "Take", "Decode", "Mutate", "Parse", "AddCache", "Execute", "Write", "Finish"} {
		if seq.ActionCount[a] == 0 {
			vlib.Infra("vacuous: action %s of HttpState never taken", a)
		}
	}
	fmt.Fprintf(os.Stderr, "TLC lane A done after %.1fs (seq %.1fs, %d distinct states; header instance %d; three in flight %d); two requests in flight continues\n",
		time.Since(tStart).Seconds(), seq.WallS, seq.Distinct, hdr.Distinct, held.Distinct)
	edges, err := vlib.ParseEdges(seq.Printed)
	if err != nil {
		vlib.Infra("edges: %v", err)
	}
	hdrEdges, err := vlib.ParseEdges(hdr.Printed)
	if err != nil {
		vlib.Infra("edges of the header instance: %v", err)
	}
	schedEdges, err := vlib.ParseEdges(held.Printed)
	if err != nil {
		vlib.Infra("schedule edges: %v", err)
	}
	scheds := schedules(schedEdges)
	twinEdges, err := vlib.ParseEdges(twin.Printed)
	if err != nil {
		vlib.Infra("edges of the twin instance: %v", err)
	}
	wsEdges, err := vlib.ParseEdges(wsm.Printed)
	if err != nil {
		vlib.Infra("websocket schedule edges: %v", err)
	}
	wsScheds := wsSchedules(wsEdges)
	twin.Printed, twin.Output, wsm.Printed, wsm.Output = nil, "", nil, ""
	seq.Printed, seq.Output, hdr.Printed, hdr.Output, held.Printed, held.Output = nil, "", nil, "", nil, ""
	initOf := func(cfg string) string {
		return `{"apq":[],"cfg":"` + cfg + `","neg":{"ct":"","tr":""},"pool":[],"qc":[]}`
	}
	init := initOf("none")
	paths := vlib.CoverPaths(edges, init, 4)
	if len(paths) == 0 {
		vlib.Infra("no path from the initial state %s", init)
	}
	toSteps := func(p []vlib.Edge) []step {
		h := make([]step, len(p))
		for i, e := range p {
			if err := json.Unmarshal(e.A, &h[i].Act); err != nil {
				vlib.Infra("edge label: %v", err)
			}
		}
		return h
	}
	var histories []hist
	covered := map[string]bool{}
	for _, p := range paths {
		histories = append(histories, hist{Cfg: "", Steps: toSteps(p)})
		for _, e := range p {
			covered[e.S+"|"+string(e.A)] = true
		}
	}
	nSeqHist := len(histories)
	// the header instance: one family of covering paths per server configuration (initial state)
	hdrCovered := map[string]bool{}
	for _, cfg := range []string{"none", "xsb", "ct"} {
		ps := vlib.CoverPaths(hdrEdges, initOf(cfg), 4)
		if len(ps) == 0 {
			vlib.Infra("header instance: no path from the initial state %s", initOf(cfg))
		}
		for _, p := range ps {
			histories = append(histories, hist{Cfg: cfg, Steps: toSteps(p)})
			for _, e := range p {
				hdrCovered[e.S+"|"+string(e.A)] = true
			}
		}
	}
	nHdrHist := len(histories) - nSeqHist
	// the twin instance: one family of covering paths per query cache (LRU, MapCache, none)
	twinCovered := map[string]bool{}
	twinAfterTwin := 0
	for _, cfg := range []string{"none", "map", "nocache"} {
		ps := vlib.CoverPaths(twinEdges, initOf(cfg), 4)
		if len(ps) == 0 {
			vlib.Infra("twin instance: no path from the initial state %s", initOf(cfg))
		}
		for _, p := range ps {
			h := hist{Cfg: cfg, Steps: toSteps(p)}
			histories = append(histories, h)
			for i, e := range p {
				twinCovered[e.S+"|"+string(e.A)] = true
				if i > 0 && cfg != "nocache" && h.Steps[i].Act.R.Q != h.Steps[i-1].Act.R.Q && twinFamily(h.Steps[i].Act.R.Q) == twinFamily(h.Steps[i-1].Act.R.Q) {
					twinAfterTwin++
				}
			}
		}
	}
	nTwinHist := len(histories) - nSeqHist - nHdrHist
	if twinAfterTwin == 0 {
		vlib.Infra("vacuous: no history serves a document right after its twin on a server with a query cache")
	}

	// ---- fresh-server oracle for every request of every history: one fresh PROCESS per request, four at a time
	rn := newRunner()
	rn.check = c
	var oracleReqs []Concrete
	for _, h := range histories {
		for _, s := range h.Steps {
			r := s.Act.R
			oracleReqs = append(oracleReqs, concretiseOn(h.Cfg, r, xreqOf(r)))
			if s.Act.ApqHit != "" {
				q := r
				q.Q = s.Act.ApqHit
				oracleReqs = append(oracleReqs, concretiseOn(h.Cfg, q, xreqOf(r)))
			}
			if r.Q == "-" && strings.HasPrefix(r.Ext, "H:") { // the concurrent variant allows either answer
				q := r
				q.Q = strings.TrimPrefix(r.Ext, "H:")
				oracleReqs = append(oracleReqs, concretiseOn(h.Cfg, q, xreqOf(r)))
			}
		}
	}
	rn.or.fill(oracleReqs, 4, func(cr Concrete, err error) {
		if d, ok := err.(*disagree); ok {
			rn.report("fresh-servers-disagree", "request "+headerOf(cr, "X-Req")+": "+d.Error(), map[string]any{"concrete": cr, "answers": []Resp{d.a, d.b}})
		} else {
			vlib.Infra("fresh-server oracle for %s: %v", headerOf(cr, "X-Req"), err)
		}
	})
	fmt.Fprintf(os.Stderr, "oracle filled after %.1fs (%d fresh-server runs)\n", time.Since(tStart).Seconds(), rn.or.n)

	// ---- sequential replay: one P, one OS thread, one connection
	runtime.GOMAXPROCS(1)
	runtime.LockOSThread()
	t0 := time.Now()
	for i, h := range histories {
		rn.replay(h, fmt.Sprintf("history %d", i), nil)
	}
	// random walks over the state graphs on ONE server each (long histories)
	walk := func(es []vlib.Edge, from, cfg string, n int, where string) {
		outEdges := map[string][]int{}
		for i, e := range es {
			outEdges[e.S] = append(outEdges[e.S], i)
		}
		cur := from
		var p []vlib.Edge
		for len(p) < n && len(outEdges[cur]) > 0 {
			e := es[outEdges[cur][rng.Intn(len(outEdges[cur]))]]
			p = append(p, e)
			cur = e.T
		}
		rn.replay(hist{Cfg: cfg, Steps: toSteps(p)}, where, nil)
	}
	nWalks, walkLen := 2, 1500
	if thorough {
		nWalks, walkLen = 8, 4000
	}
	for w := 0; w < nWalks; w++ {
		walk(edges, init, "", walkLen, fmt.Sprintf("random walk %d", w))
	}
	for _, cfg := range []string{"xsb", "none", "ct"} {
		walk(hdrEdges, initOf(cfg), cfg, walkLen/3, "random walk of the header instance on configuration "+cfg)
	}
	for _, cfg := range []string{"none", "map", "nocache"} {
		walk(twinEdges, initOf(cfg), cfg, walkLen/5, "random walk of the twin instance, query cache "+cfg)
	}
	seqWall := time.Since(t0).Seconds()
	fmt.Fprintf(os.Stderr, "sequential replay done after %.1fs (%d requests, %d oracle runs)\n", time.Since(tStart).Seconds(), rn.st.Requests, rn.or.n)
	runtime.UnlockOSThread()
	runtime.GOMAXPROCS(runtime.NumCPU())
	seqStats := rn.st
	seqStats.OracleRuns = rn.or.n
	for _, f := range rn.findings {
		c.Violate(f.Key, f.Detail, f.Scen)
	}
	if seqStats.Reuse == 0 {
		vlib.Infra("vacuous: %d POST requests reached the parameter mutator and no *RawParams address was seen twice - sync.Pool reuse did not happen", seqStats.PostSeen)
	}
	if seqStats.PredMismatch > 0 {
		fmt.Fprintf(os.Stderr, "note: %d of %d fresh-server answers do not have the status / Content-Type the model's negotiation function prescribes (e.g. %s)\n",
			seqStats.PredMismatch, seqStats.PredChecked, seqStats.PredSample)
	}

	// ---- several operations in flight on one websocket connection
	wst := runWsInflight(c, rn, wsScheds)
	if wst.Overlaps == 0 {
		vlib.Infra("vacuous: no websocket schedule has two operations in flight")
	}
	fmt.Fprintf(os.Stderr, "websocket in-flight phase done after %.1fs (%d connections)\n", time.Since(tStart).Seconds(), wst.Connections)

	// ---- concurrent variant in a -race build of this driver || concurrent requests against generated code
	concHist := append([]hist{}, histories[:nSeqHist]...)
	maxConc := 1200
	if thorough {
		maxConc = 8000
	}
	if len(concHist) > maxConc {
		rng.Shuffle(len(concHist), func(i, j int) { concHist[i], concHist[j] = concHist[j], concHist[i] })
		concHist = concHist[:maxConc]
	}
	for _, h := range histories[nSeqHist:] { // the header and twin instances completely
		if h.Cfg != "map" { // graphql.MapCache is a plain map ("should only be used in tests"): one client at a time
			concHist = append(concHist, h)
		}
	}
	pb := <-probesCh
	if pb.err != nil {
		vlib.Infra("build probes: %v", pb.err)
	}
	var gs genStats
	var gwg sync.WaitGroup
	gwg.Add(1)
	go func() {
		defer gwg.Done()
		gs = runGenerated(c, pb.bins, probeVs, scheds, rand.New(rand.NewSource(vlib.Seed()+707)), thorough)
		fmt.Fprintf(os.Stderr, "generated-code phase done after %.1fs\n", time.Since(tStart).Seconds())
	}()
	concStats, raceOut := runConcurrent(c, <-raceBuilt, concHist, rn.or.memo)
	fmt.Fprintf(os.Stderr, "concurrent variant done after %.1fs\n", time.Since(tStart).Seconds())
	gwg.Wait()

	finishModels()
	fmt.Fprintf(os.Stderr, "TLC lane B done after %.1fs\n", time.Since(tStart).Seconds())
	c.AddTraces(seqStats.Histories + concStats.Histories + gs.Runs + wst.Connections)
	c.AddEvals(seqStats.Requests + concStats.Requests + gs.Requests + wst.Steps)
	for _, tr := range sortedKeys(seqStats.PerTr) {
		c.Class("transport=" + tr)
	}
	for k := range covered {
		c.Class(k)
	}
	for k := range hdrCovered {
		c.Class("hdr|" + k)
	}
	for k := range twinCovered {
		c.Class("twin|" + k)
	}
	for _, sc := range wsScheds {
		c.Class("ws|" + wsSchedName(sc))
	}
	for _, k := range gs.Classes {
		c.Class(k)
	}
	c.Set("rule", "TLC explores HttpState (pool x query cache x APQ cache x transport configuration, every request of the alphabet from every reachable state, fresh and pooled object) and prints the request-level labelled state graph; "+
		"histories = paths from Init that together cover every edge (CoverPaths, length <= 4 beyond the shortest prefix) + seeded random walks; a distinct class = one (source state, request, pool choice) edge. "+
		"Header instance: source state = server configuration x (transport, media type) negotiated last, requests with an Accept dimension; one family of covering paths per configuration. "+
		"Twin instance: documents that differ only in significant white space / commas / comment terminators, on servers with the LRU cache, MapCache and no cache; the exported state holds the cached texts, so the cover serves each text from every state in which a twin is cached. "+
		"Websocket: TLC prints the schedule graph of one connection (subscribe A, subscribe B, ping, released events and stream ends); every maximal path is driven on a real connection in two variants. "+
		"Generated code: TLC (three requests in flight, Respond split into Execute and Write) prints the schedule graph; every maximal path = one order of the Execute / Write steps, driven through gates on real concurrent requests; a class = one schedule x generator variant")
	c.Set("exhaustive", true)
	c.Set("edges", len(edges))
	c.Set("edges_covered", len(covered))
	c.Set("header_instance_edges", len(hdrEdges))
	c.Set("header_instance_edges_covered", len(hdrCovered))
	c.Set("header_instance_histories", nHdrHist)
	c.Set("twin_instance_edges", len(twinEdges))
	c.Set("twin_instance_edges_covered", len(twinCovered))
	c.Set("twin_instance_histories", nTwinHist)
	c.Set("twin_served_right_after_its_twin", twinAfterTwin)
	c.Set("tlc_twin_instance_states", twin.Distinct)
	c.Set("websocket_in_flight", wst)
	c.Set("tlc_websocket_part_states", wsm.Distinct)
	if len(twinCovered) != len(twinEdges) {
		vlib.Infra("twin instance: %d of %d edges covered", len(twinCovered), len(twinEdges))
	}
	c.Set("histories", len(histories))
	c.Set("sequential", seqStats)
	c.Set("sequential_wall_s", seqWall)
	c.Set("concurrent", concStats)
	c.Set("race_detector_output", raceOut)
	c.Set("generated_code_concurrent", gs)
	c.Set("model_mutants_violated_invariant", modelMutants)
	c.Set("tlc_seq_states", seq.Distinct)
	c.Set("tlc_header_instance_states", hdr.Distinct)
	c.Set("tlc_three_in_flight_states", held.Distinct)
	if len(hdrCovered) != len(hdrEdges) {
		vlib.Infra("header instance: %d of %d edges covered", len(hdrCovered), len(hdrEdges))
	}
	if len(histories) > 0 {
		h := histories[nSeqHist/2]
		var rs []string
		for _, s := range h.Steps {
			rs = append(rs, s.Act.R.label()+" -> "+s.Act.Out)
		}
		c.Sample(map[string]any{"history": rs})
		c.Sample(map[string]any{"first_history": histories[0]})
		hh := histories[nSeqHist+nHdrHist/2]
		rs = nil
		for _, s := range hh.Steps {
			rs = append(rs, s.Act.R.label()+" -> "+s.Act.Out+" "+s.Act.St+" "+ctName(s.Act.Ct))
		}
		c.Sample(map[string]any{"header_instance_history": rs, "server_config": hh.Cfg, "response_headers_configured": cfgHeaders(hh.Cfg)})
	}
	if gs.Sample != nil {
		c.Sample(gs.Sample)
	}
	c.Assume("resolvers are deterministic and echo operation name, coerced variables, extensions, the X-Req header and their arguments")
	c.Assume("sync.Pool reuse is observed through the address of the *RawParams handed to the first OperationParameterMutator (no source hook)")
	c.Assume("each history starts on a freshly constructed server (the model's Init); transport.pool is process-global and shared by all of them")
	c.Assume("the fresh-server oracle is memoised per (server configuration, concrete request); each answer comes from a copy of the driver started for that one request (fresh process: nothing package-level is shared with the servers under test); every fourth answer is confirmed by a second fresh process")
	c.Assume("generated code: the universal resolver with a fixed plan per request is deterministic; the order of the errors list is not compared (fields of one object are resolved concurrently), its content is; the alone-oracle runs in the probe process before any concurrent request")
	c.Finish()
}

// ------------------------------------------------------------------ concurrent variant

type concInput struct {
	Oracle    map[string]Resp `json:"oracle"` // the parent's fresh-process answers
	Histories []hist          `json:"histories"`
	Clients   int             `json:"clients"`
}

type concOutput struct {
	Stats    stats     `json:"stats"`
	Findings []finding `json:"findings"`
}

// runConcurrent builds this driver with -race and lets it fire the histories
// from 8 clients at one server.
// buildRaceDriver builds this driver a second time, with -race (while TLC runs).
func buildRaceDriver() string {
	dir := vlib.Work("C07", "race")
	_ = os.MkdirAll(dir, 0o755)
	bin := filepath.Join(dir, "c07race")
	out, err := vlib.RunCmd(vlib.Harness(), vlib.GoEnv(), 10*time.Minute, "go", "build", "-race", "-tags", "verif", "-o", bin, "./cmd/c07")
	if err != nil {
		vlib.Infra("go build -race ./cmd/c07: %v\n%s", err, out)
	}
	return bin
}

func runConcurrent(c *vlib.Check, bin string, hs []hist, memo map[string]Resp) (stats, string) {
	dir := vlib.Work("C07", "race")
	in := filepath.Join(dir, "histories.json")
	b, _ := json.Marshal(concInput{Oracle: memo, Histories: hs, Clients: 8})
	if err := os.WriteFile(in, b, 0o644); err != nil {
		vlib.Infra("%v", err)
	}
	res := filepath.Join(dir, "result.json")
	_ = os.Remove(res)
	cmd := exec.Command(bin)
	cmd.Env = append(os.Environ(), "C07_MODE=conc", "C07_IN="+in, "C07_OUT="+res, "GORACE=halt_on_error=0 exitcode=0")
	var stderr strings.Builder
	cmd.Stderr = &stderr
	cmd.Stdout = &stderr
	done := make(chan error, 1)
	go func() { done <- cmd.Run() }()
	select {
	case err := <-done:
		if err != nil {
			se := stderr.String()
			// a Go runtime abort on unsynchronised map access is behaviour of the code under test
			if i := strings.Index(se, "fatal error: concurrent map"); i >= 0 {
				c.Violate("concurrent:server-crash:concurrent-map-access",
					"the server process died while 8 clients replayed the histories against one server:\n"+tail(se[i:], 1500), map[string]any{"stderr": tail(se[i:], 6000)})
				return stats{PerTr: map[string]int64{}, PerOut: map[string]int64{}}, tail(se[i:], 3000)
			}
			if c.Violations() > 0 {
				fmt.Fprintf(os.Stderr, "concurrent child stopped (%v) after violations were found sequentially:\n%s\n", err, tail(se, 1500))
				return stats{PerTr: map[string]int64{}, PerOut: map[string]int64{}}, ""
			}
			vlib.Infra("concurrent child: %v\n%s", err, tail(se, 3000))
		}
	case <-time.After(15 * time.Minute):
		_ = cmd.Process.Kill()
		vlib.Infra("concurrent child timed out\n%s", tail(stderr.String(), 3000))
	}
	rb, err := os.ReadFile(res)
	if err != nil {
		vlib.Infra("concurrent child wrote no result: %v\n%s", err, tail(stderr.String(), 3000))
	}
	var co concOutput
	if err := json.Unmarshal(rb, &co); err != nil {
		vlib.Infra("concurrent child result: %v", err)
	}
	for _, f := range co.Findings {
		c.Violate("concurrent:"+f.Key, f.Detail, f.Scen)
	}
	raceOut := ""
	if i := strings.Index(stderr.String(), "WARNING: DATA RACE"); i >= 0 {
		raceOut = tail(stderr.String()[i:], 6000)
		key := "data-race"
		for _, fn := range []string{"mergeHeaders", "determineResponseContentType", "writeHeaders", "collectFields", "CollectFields", "transport.POST", "parseQuery", "lru", "extension.AutomaticPersistedQuery", "transport.(*wsConnection)"} {
			if strings.Contains(raceOut, fn) {
				key = "data-race:" + fn
				break
			}
		}
		c.Violate(key, "the race detector reported a data race while 8 clients replayed the histories against one server:\n"+raceOut[:min(len(raceOut), 1400)], map[string]any{"race_report": raceOut})
	}
	return co.Stats, raceOut
}

func tail(s string, n int) string {
	if len(s) > n {
		return s[:n]
	}
	return s
}

// concurrentChild runs inside the -race build.
func concurrentChild() {
	b, err := os.ReadFile(os.Getenv("C07_IN"))
	if err != nil {
		fmt.Fprintln(os.Stderr, err)
		os.Exit(3)
	}
	var in concInput
	if err := json.Unmarshal(b, &in); err != nil {
		fmt.Fprintln(os.Stderr, err)
		os.Exit(3)
	}
	rn := newRunner()
	rn.conc = true
	// the oracle: the parent's answers (fresh processes); what is missing is asked before the clients start
	if in.Oracle != nil {
		rn.or.memo = in.Oracle
	}
	var need []Concrete
	for _, h := range in.Histories {
		for _, s := range h.Steps {
			r := s.Act.R
			need = append(need, concretiseOn(h.Cfg, r, xreqOf(r)))
			if r.Q == "-" && strings.HasPrefix(r.Ext, "H:") {
				q := r
				q.Q = strings.TrimPrefix(r.Ext, "H:")
				need = append(need, concretiseOn(h.Cfg, q, xreqOf(r)))
			}
		}
	}
	rn.or.fill(need, 2, func(cr Concrete, err error) {
		if d, ok := err.(*disagree); ok {
			rn.report("fresh-servers-disagree", d.Error(), map[string]any{"concrete": cr})
		} else {
			fmt.Fprintln(os.Stderr, "oracle:", err)
			os.Exit(3)
		}
	})
	// one server per configuration; its histories are fired by the clients
	byCfg := map[string][]int{}
	var cfgs []string
	for i, h := range in.Histories {
		if _, ok := byCfg[h.Cfg]; !ok {
			cfgs = append(cfgs, h.Cfg)
		}
		byCfg[h.Cfg] = append(byCfg[h.Cfg], i)
	}
	for _, cfg := range cfgs {
		idx := byCfg[cfg]
		ls := startServerCfg(cfg)
		var wg sync.WaitGroup
		for w := 0; w < in.Clients; w++ {
			wg.Add(1)
			go func(w int) {
				defer wg.Done()
				for k := w; k < len(idx); k += in.Clients {
					rn.replay(in.Histories[idx[k]], fmt.Sprintf("client %d history %d", w, idx[k]), ls)
				}
			}(w)
		}
		wg.Wait()
		if w := ls.configWritten(); len(w) > 0 {
			rn.report(fmt.Sprintf("config-written{cfg=%s}", ls.cfg),
				fmt.Sprintf("after %d concurrent histories the ResponseHeaders map the transport was constructed with holds %v", len(idx), w),
				map[string]any{"server_config": ls.cfg, "written": w})
		}
		ls.close()
	}
	rn.st.OracleRuns = rn.or.n
	ob, _ := json.Marshal(concOutput{Stats: rn.st, Findings: rn.findings})
	if err := os.WriteFile(os.Getenv("C07_OUT"), ob, 0o644); err != nil {
		fmt.Fprintln(os.Stderr, err)
		os.Exit(3)
	}
}

func headerOf(cr Concrete, name string) string {
	for _, kv := range cr.Headers {
		if kv[0] == name {
			return kv[1]
		}
	}
	if cr.WS {
		return "websocket operation"
	}
	return ""
}

// freshProcess asks a fresh copy of this driver (C07_MODE=oracle1) to construct
// a server, serve the one request and exit.
func freshProcess(cr Concrete) (Resp, error) {
	in, _ := json.Marshal(cr)
	var lastErr error
	for try := 0; try < 2; try++ { // a second try on a harness-level failure (machine load)
		cmd := exec.Command(os.Args[0])
		cmd.Env = append(os.Environ(), "C07_MODE=oracle1")
		cmd.Stdin = strings.NewReader(string(in))
		var out, errb strings.Builder
		cmd.Stdout, cmd.Stderr = &out, &errb
		done := make(chan error, 1)
		if err := cmd.Start(); err != nil {
			return Resp{}, err
		}
		go func() { done <- cmd.Wait() }()
		select {
		case err := <-done:
			if err != nil {
				lastErr = fmt.Errorf("oracle process: %v: %s", err, tail(errb.String(), 500))
				continue
			}
		case <-time.After(90 * time.Second):
			_ = cmd.Process.Kill()
			lastErr = fmt.Errorf("oracle process timed out")
			continue
		}
		var r Resp
		if err := json.Unmarshal([]byte(out.String()), &r); err != nil {
			lastErr = fmt.Errorf("oracle process output: %v: %s", err, tail(out.String(), 300))
			continue
		}
		return r, nil
	}
	return Resp{}, lastErr
}

// oracleProcess: construct a server, serve the one request on stdin, print the answer.
func oracleProcess() {
	b, err := io.ReadAll(os.Stdin)
	if err != nil {
		fmt.Fprintln(os.Stderr, err)
		os.Exit(3)
	}
	var cr Concrete
	if err := json.Unmarshal(b, &cr); err != nil {
		fmt.Fprintln(os.Stderr, err)
		os.Exit(3)
	}
	ls := startServerCfg(cr.Cfg)
	c := newClient(ls)
	r, _, err := c.do(cr, "oracle")
	if err != nil {
		fmt.Fprintln(os.Stderr, err)
		os.Exit(3)
	}
	ob, _ := json.Marshal(r)
	os.Stdout.Write(ob)
	c.close()
	ls.close()
}

// replayFile re-runs one recorded scenario: the history before the request, then the request.
func replayFile(c *vlib.Check, path string) {
	b, err := os.ReadFile(path)
	if err != nil {
		vlib.Infra("replay: %v", err)
	}
	var g struct {
		Scenario struct {
			Where   string `json:"where"`
			Variant string `json:"variant"`
		} `json:"scenario"`
	}
	if json.Unmarshal(b, &g) == nil && g.Scenario.Where == "ws-inflight" {
		replayWs(c, b)
		return
	}
	if json.Unmarshal(b, &g) == nil && g.Scenario.Variant != "" {
		replayGenerated(c, b)
		return
	}
	var f struct {
		Scenario struct {
			Cfg    string `json:"server_config"`
			Before []AReq `json:"history_before"`
			Spec   Act    `json:"specification"`
		} `json:"scenario"`
	}
	if err := json.Unmarshal(b, &f); err != nil {
		vlib.Infra("replay: %v", err)
	}
	runtime.GOMAXPROCS(1)
	rn := newRunner()
	cfg := f.Scenario.Cfg
	ls := startServerCfg(cfg)
	defer ls.close()
	cl := newClient(ls)
	defer cl.close()
	for i, r := range f.Scenario.Before {
		if _, _, err := cl.do(concretiseOn(cfg, r, xreqOf(r)), fmt.Sprintf("b%d", i)); err != nil {
			vlib.Infra("replay: %v", err)
		}
	}
	a := f.Scenario.Spec
	cr := concretiseOn(cfg, a.R, xreqOf(a.R))
	resp, seen, err := cl.do(cr, "replayed")
	if err != nil {
		vlib.Infra("replay: %v", err)
	}
	rn.judge(ls.cfg, a, cr, resp, seen, f.Scenario.Before, "replay")
	fmt.Printf("replayed %v then %s -> %s\n", labels(f.Scenario.Before), a.R.label(), resp.key())
	for _, fd := range rn.findings {
		c.Violate(fd.Key, fd.Detail, fd.Scen)
	}
	c.AddTraces(1)
	c.AddEvals(int64(len(f.Scenario.Before) + 1))
	c.Class("replay")
	c.Sample(f.Scenario)
	c.Finish()
}
