package main

import (
	"bytes"
	"crypto/sha256"
	"encoding/hex"
	"encoding/json"
	"fmt"
	"io"
	"mime/multipart"
	"net/http"
	"net/textproto"
	"net/url"
	"sort"
	"strings"
	"sync"
	"time"

	"github.com/gorilla/websocket"
)

// AReq is an abstract request of spec/HttpState.tla.
type AReq struct {
	Tr   string `json:"tr"`
	Q    string `json:"q"`
	Opn  string `json:"opn"`
	Vars string `json:"vars"`
	Ext  string `json:"ext"`
	Acc  string `json:"acc"` // Accept header: - | json | gql | any | html | multi
}

func (r AReq) label() string {
	s := r.Tr + "|" + r.Q + "|" + r.Opn + "|" + r.Vars + "|" + r.Ext
	if r.Acc != "" && r.Acc != "-" {
		s += "|" + r.Acc
	}
	return s
}

// acceptHeader renders the Accept classes of the model.
func acceptHeader(acc string) string {
	switch acc {
	case "json":
		return "application/json"
	case "gql":
		return "application/graphql-response+json"
	case "any":
		return "*/*"
	case "html":
		return "text/html"
	case "multi":
		return "text/html, application/json;q=0.9"
	}
	return ""
}

// ctName renders the media type classes of the model.
func ctName(ct string) string {
	switch ct {
	case "json":
		return "application/json"
	case "gql":
		return "application/graphql-response+json"
	case "cj":
		return "application/json; charset=utf-8"
	}
	return ct
}

// Act is the label of a request-level edge.
type Act struct {
	R      AReq   `json:"r"`
	Pooled bool   `json:"pooled"`
	ApqHit string `json:"apqhit"`
	Hit    bool   `json:"hit"`
	Own    struct {
		Q    string      `json:"q"`
		Opn  string      `json:"opn"`
		Vars [][2]string `json:"vars"`
		Ext  [][2]string `json:"ext"`
	} `json:"own"`
	Out string `json:"out"`
	Ct  string `json:"ct"` // media type class the model prescribes ("" = transport without configured headers)
	St  string `json:"st"` // status class: 200 | 400 | 422 | own | ""
}

// Concrete is one concrete request: an HTTP request or one websocket operation.
type Concrete struct {
	Cfg     string      `json:"server_config,omitempty"` // configuration the server is constructed with ("" = none)
	WS      bool        `json:"ws,omitempty"`
	Method  string      `json:"method,omitempty"`
	Query   string      `json:"raw_query,omitempty"`
	Headers [][2]string `json:"headers,omitempty"`
	Body    string      `json:"body,omitempty"`
	Payload string      `json:"ws_payload,omitempty"`
}

func (c Concrete) key() string { b, _ := json.Marshal(c); return string(b) }

var texts = map[string]string{"Q1": textQ1, "Q2": textQ2, "QX": textQX,
	// document twins (TwinTexts in spec/HttpState.tla): they differ only in bytes that look insignificant and are not
	"TA1": `{ echo(s: "a b") }`,            // blanks inside a string argument
	"TA2": `{ echo(s: "a  b") }`,           //
	"TF1": `{ echo(s: "a,b") }`,            // a comma inside a string
	"TB1": "{ echo(s: \"\"\"x\ny\"\"\") }", // a block string: line break ...
	"TB2": `{ echo(s: """x y""") }`,        // ... or blank
	"TC1": "query Q {\n  opName # c\n}",    // the comment ends at the line break: valid
	"TC2": "query Q { opName # c }",        // the comment swallows the closing brace: does not parse
	"TD1": "{ opName # c\n vars }",         // two fields
	"TD2": "{ opName # c vars\n }",         // the comment swallows the second field
	"TD3": "{ opName # c\r vars }",         // \r ends a comment too: two fields
	"TD4": "{ opName # c  vars }",          // a blank where TD3 has \r: the comment swallows the rest, does not parse
	"TG1": "{ opName  vars }",              // control: really equivalent ...
	"TG2": "{\n opName\n vars\n}",          // ... layouts
}

func hashOf(q string) string { b := sha256.Sum256([]byte(q)); return hex.EncodeToString(b[:]) }

func jstr(s string) string { b, _ := json.Marshal(s); return string(b) }

func varsJSON(name string) string {
	switch name {
	case "V1":
		return `{"s":"one"}`
	case "V2":
		return `{"s":"two","f":true}`
	case "null":
		return `null`
	case "bad":
		return `5`
	}
	return ""
}

func extJSON(name string) string {
	switch name {
	case "X":
		return `{"x":1}`
	case "H:Q1":
		return fmt.Sprintf(`{"persistedQuery":{"version":1,"sha256Hash":"%s"}}`, hashOf(textQ1))
	case "H:Q2":
		return fmt.Sprintf(`{"persistedQuery":{"version":1,"sha256Hash":"%s"}}`, hashOf(textQ2))
	}
	return ""
}

// ownJSON renders a map of the model (set of key/value pairs) as the canonical
// JSON the parameter logger prints.
func ownJSON(pairs [][2]string) string {
	if len(pairs) == 0 {
		return "null"
	}
	m := map[string]any{}
	for _, p := range pairs {
		switch p[0] {
		case "s":
			m["s"] = p[1]
		case "f":
			m["f"] = p[1] == "true"
		case "x":
			m["x"] = 1
		case "persistedQuery":
			m["persistedQuery"] = map[string]any{"version": 1, "sha256Hash": hashOf(texts[p[1]])}
		default:
			m[p[0]] = p[1]
		}
	}
	return canon(m)
}

// jsonObject renders the members of a request in the order query,
// operationName, variables, extensions; an absent member is omitted.
// emptyQuery: the carrier needs the member (UrlEncodedForm recognises JSON by it).
func jsonObject(r AReq, emptyQuery bool) string {
	var kv []string
	if r.Q != "-" {
		kv = append(kv, `"query":`+jstr(texts[r.Q]))
	} else if emptyQuery {
		kv = append(kv, `"query":""`)
	}
	switch r.Opn {
	case "-":
	case "null":
		kv = append(kv, `"operationName":null`)
	default:
		kv = append(kv, `"operationName":`+jstr(r.Opn))
	}
	if r.Vars != "-" {
		kv = append(kv, `"variables":`+varsJSON(r.Vars))
	}
	if r.Ext != "-" {
		kv = append(kv, `"extensions":`+extJSON(r.Ext))
	}
	return "{" + strings.Join(kv, ",") + "}"
}

// concretise renders an abstract request; xreq is the value of the X-Req
// header the resolvers echo.  X-Verif-Id is the harness' own correlation
// header; its value is filled in when the request is sent.
func concretise(r AReq, xreq string) Concrete { return concretiseOn("", r, xreq) }

// concretiseOn: the request as sent to a server constructed with configuration cfg.
func concretiseOn(cfg string, r AReq, xreq string) Concrete {
	if cfg == "none" {
		cfg = ""
	}
	c := Concrete{Cfg: cfg, Headers: [][2]string{{"X-Verif-Id", ""}, {"X-Req", xreq}}}
	if a := acceptHeader(r.Acc); a != "" && r.Tr != "WS" {
		c.Headers = append(c.Headers, [2]string{"Accept", a})
	}
	switch r.Tr {
	case "WS":
		c.WS = true
		c.Headers = nil
		c.Payload = jsonObject(r, false)
	case "GET":
		c.Method = "GET"
		v := url.Values{}
		if r.Q != "-" {
			v.Set("query", texts[r.Q])
		}
		if r.Opn != "-" {
			v.Set("operationName", r.Opn)
		}
		switch r.Vars {
		case "-":
		case "bad":
			v.Set("variables", "notjson")
		default:
			v.Set("variables", varsJSON(r.Vars))
		}
		if r.Ext != "-" {
			v.Set("extensions", extJSON(r.Ext))
		}
		c.Query = v.Encode()
	case "POST":
		c.Method = "POST"
		c.Headers = append(c.Headers, [2]string{"Content-Type", "application/json"})
		c.Body = jsonObject(r, false)
	case "SSE":
		c.Method = "POST"
		c.Headers = append(c.Headers, [2]string{"Content-Type", "application/json"}, [2]string{"Accept", "text/event-stream"})
		c.Body = jsonObject(r, false)
	case "FORM":
		c.Method = "POST"
		c.Headers = append(c.Headers, [2]string{"Content-Type", "application/x-www-form-urlencoded"})
		c.Body = jsonObject(r, true)
	case "GRAPHQL":
		c.Method = "POST"
		c.Headers = append(c.Headers, [2]string{"Content-Type", "application/graphql"})
		if r.Q != "-" {
			c.Body = texts[r.Q]
		}
	case "MULTIPART":
		c.Method = "POST"
		var buf bytes.Buffer
		w := multipart.NewWriter(&buf)
		_ = w.SetBoundary("c07boundary")
		for _, p := range [][2]string{{"operations", jsonObject(r, false)}, {"map", "{}"}} {
			h := textproto.MIMEHeader{}
			h.Set("Content-Disposition", fmt.Sprintf(`form-data; name="%s"`, p[0]))
			pw, _ := w.CreatePart(h)
			_, _ = pw.Write([]byte(p[1]))
		}
		_ = w.Close()
		c.Headers = append(c.Headers, [2]string{"Content-Type", "multipart/form-data; boundary=c07boundary"})
		c.Body = buf.String()
	default:
		panic("unknown transport " + r.Tr)
	}
	return c
}

// Resp is everything a client sees of one answer.
type Resp struct {
	Status int                 `json:"status,omitempty"`
	Header map[string][]string `json:"header,omitempty"`
	Body   string              `json:"body,omitempty"`
	Frames []string            `json:"frames,omitempty"`
}

func (r Resp) key() string { b, _ := json.Marshal(r); return string(b) }

// client talks to one live server: HTTP over a single kept-alive connection
// and at most one websocket connection, opened at the first websocket request.
type client struct {
	ls   *liveServer
	hc   *http.Client
	ws   *websocket.Conn
	wsID string
	nOp  int
}

func newClient(ls *liveServer) *client {
	return &client{ls: ls, hc: &http.Client{
		Transport: &http.Transport{MaxConnsPerHost: 1, MaxIdleConnsPerHost: 1, DisableCompression: true},
		Timeout:   20 * time.Second,
	}}
}

func (c *client) close() {
	if c.ws != nil {
		_ = c.ws.WriteMessage(websocket.CloseMessage, websocket.FormatCloseMessage(websocket.CloseNormalClosure, ""))
		_ = c.ws.Close()
	}
	c.hc.CloseIdleConnections()
}

// do sends one concrete request and returns the answer and what the
// parameter logger saw for it.
func (c *client) do(cr Concrete, id string) (Resp, []Seen, error) {
	if cr.WS {
		return c.doWS(cr, id)
	}
	u := c.ls.ts.URL + "/graphql"
	if cr.Query != "" {
		u += "?" + cr.Query
	}
	var body io.Reader
	if cr.Body != "" {
		body = strings.NewReader(cr.Body)
	}
	req, err := http.NewRequest(cr.Method, u, body)
	if err != nil {
		return Resp{}, nil, err
	}
	for _, kv := range cr.Headers {
		v := kv[1]
		if kv[0] == "X-Verif-Id" {
			v = id
		}
		req.Header[kv[0]] = append(req.Header[kv[0]], v)
	}
	resp, err := c.hc.Do(req)
	if err != nil {
		return Resp{}, nil, err
	}
	b, err := io.ReadAll(resp.Body)
	resp.Body.Close()
	if err != nil {
		return Resp{}, nil, err
	}
	out := Resp{Status: resp.StatusCode, Header: map[string][]string{}, Body: string(b)}
	for k, v := range resp.Header {
		if k == "Date" {
			continue
		}
		out.Header[k] = v
	}
	v, ok := c.ls.store.LoadAndDelete(id)
	if !ok {
		return out, nil, fmt.Errorf("request %s never reached the handler", id)
	}
	rec := v.(*reqRec)
	select {
	case <-rec.done:
	case <-time.After(20 * time.Second):
		return out, nil, fmt.Errorf("handler of %s did not return", id)
	}
	rec.mu.Lock()
	seen := append([]Seen{}, rec.seen...)
	rec.mu.Unlock()
	return out, seen, nil
}

func (c *client) doWS(cr Concrete, id string) (Resp, []Seen, error) {
	if c.ws == nil {
		c.wsID = id
		h := http.Header{"X-Verif-Id": {id}, "X-Req": {"ws"}}
		d := websocket.Dialer{Subprotocols: []string{"graphql-transport-ws"}, HandshakeTimeout: 10 * time.Second}
		conn, _, err := d.Dial("ws"+strings.TrimPrefix(c.ls.ts.URL, "http")+"/graphql", h)
		if err != nil {
			return Resp{}, nil, fmt.Errorf("ws dial: %w", err)
		}
		c.ws = conn
		if err := conn.WriteMessage(websocket.TextMessage, []byte(`{"type":"connection_init"}`)); err != nil {
			return Resp{}, nil, err
		}
		_ = conn.SetReadDeadline(time.Now().Add(10 * time.Second))
		_, msg, err := conn.ReadMessage()
		if err != nil || !strings.Contains(string(msg), "connection_ack") {
			return Resp{}, nil, fmt.Errorf("ws init: %v %s", err, msg)
		}
	}
	v, ok := c.ls.store.Load(c.wsID)
	if !ok {
		return Resp{}, nil, fmt.Errorf("ws connection unknown to the server")
	}
	rec := v.(*reqRec)
	rec.mu.Lock()
	before := len(rec.seen)
	rec.mu.Unlock()
	c.nOp++
	opID := fmt.Sprintf("op%d", c.nOp)
	msg := fmt.Sprintf(`{"id":"%s","type":"subscribe","payload":%s}`, opID, cr.Payload)
	if err := c.ws.WriteMessage(websocket.TextMessage, []byte(msg)); err != nil {
		return Resp{}, nil, err
	}
	out := Resp{}
	for {
		_ = c.ws.SetReadDeadline(time.Now().Add(10 * time.Second))
		_, m, err := c.ws.ReadMessage()
		if err != nil {
			return out, nil, fmt.Errorf("ws read: %w (frames so far %v)", err, out.Frames)
		}
		var f struct {
			ID      string          `json:"id"`
			Type    string          `json:"type"`
			Payload json.RawMessage `json:"payload"`
		}
		if err := json.Unmarshal(m, &f); err != nil {
			return out, nil, fmt.Errorf("ws frame: %s", m)
		}
		if f.Type == "ping" || f.Type == "pong" || f.Type == "ka" {
			continue
		}
		// the operation id is the harness' own; it is not part of the answer
		out.Frames = append(out.Frames, f.Type+" "+string(f.Payload))
		if f.Type == "complete" && f.ID == opID {
			break
		}
	}
	rec.mu.Lock()
	seen := append([]Seen{}, rec.seen[before:]...)
	rec.mu.Unlock()
	return out, seen, nil
}

// oracle answers "what does a freshly constructed server return for this
// request alone" - literally: a copy of this driver is started for the one
// request (freshProcess: construct the server, serve, exit), so that nothing a
// process may remember (transport.pool, any package-level value) is shared with
// the servers under test.  Answers are memoised per (configuration, concrete
// request); every fourth is confirmed by a second fresh process.
type oracle struct {
	mu   sync.Mutex
	memo map[string]Resp
	n    int
}

func (o *oracle) alone(cr Concrete) (Resp, error) {
	k := cr.key()
	o.mu.Lock()
	r, ok := o.memo[k]
	o.mu.Unlock()
	if ok {
		return r, nil
	}
	r, err := freshProcess(cr)
	if err != nil {
		return r, err
	}
	o.mu.Lock()
	o.n++
	n := o.n
	o.memo[k] = r
	o.mu.Unlock()
	// deterministic? ask a second fresh process (every fourth request)
	if n%4 == 1 {
		r2, err := freshProcess(cr)
		if err != nil {
			return r, err
		}
		if r.key() != r2.key() {
			return r, &disagree{a: r, b: r2}
		}
	}
	return r, nil
}

// fill answers the requests with `workers` fresh processes at a time.
func (o *oracle) fill(crs []Concrete, workers int, each func(cr Concrete, err error)) {
	ch := make(chan Concrete, len(crs))
	seen := map[string]bool{}
	for _, cr := range crs {
		if k := cr.key(); !seen[k] {
			seen[k] = true
			ch <- cr
		}
	}
	close(ch)
	var wg sync.WaitGroup
	var emu sync.Mutex
	for w := 0; w < workers; w++ {
		wg.Add(1)
		go func() {
			defer wg.Done()
			for cr := range ch {
				if _, err := o.alone(cr); err != nil {
					emu.Lock()
					each(cr, err)
					emu.Unlock()
				}
			}
		}()
	}
	wg.Wait()
}

// disagree: two freshly constructed servers answered the same single request differently.
type disagree struct{ a, b Resp }

func (d *disagree) Error() string {
	return "two freshly constructed servers answer the same request differently: " + d.a.key() + " vs " + d.b.key()
}

func sortedKeys(m map[string]int64) []string {
	ks := make([]string, 0, len(m))
	for k := range m {
		ks = append(ks, k)
	}
	sort.Strings(ks)
	return ks
}
