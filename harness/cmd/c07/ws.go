package main

// Round 3: several operations in flight on ONE websocket connection
// (spec/HttpState.tla, websocket part; MC_HttpStateWs). TLC prints the schedule
// graph: client messages (subscribe A, subscribe B, ping) and test-released
// frames (event k of an operation, the end of its stream) in every order. Each
// maximal path is driven on a real connection (graphql-transport-ws, gorilla
// client): A = `subscription { ticks(s:"A", n:2) }`, B = `subscription {
// ticks(s:"B", n:1) }` or - second variant - the query `{ echo(s:"B") }`, whose
// frames nobody holds back. Every frame must carry the id of the operation that
// produced it, and per id the frames must be what the operation gets alone on a
// fresh connection of a fresh server (fresh-process oracle): WsFrameOwn.

import (
	"encoding/json"
	"fmt"
	"sort"
	"strings"
	"time"

	"github.com/gorilla/websocket"

	"verifharness/vlib"
)

type wsStep struct {
	Ev string `json:"ev"` // WsSubscribe | WsPing | WsEmit | WsComplete
	ID string `json:"id"`
}

type wsFrame struct {
	ID      string `json:"id"`
	Type    string `json:"type"`
	Payload string `json:"payload"`
}

type wsStats struct {
	Schedules   int   `json:"schedules"`
	Connections int64 `json:"connections"`
	Steps       int64 `json:"steps"`
	Frames      int64 `json:"frames_checked"`
	// steps at which a frame was released or a message sent while another operation was still in flight
	Overlaps int64    `json:"steps_with_another_operation_in_flight"`
	Variants []string `json:"variants"`
}

// wsSchedules: every maximal path of the schedule graph from "nothing sent".
func wsSchedules(edges []vlib.Edge) [][]wsStep {
	out := map[string][]vlib.Edge{}
	for _, e := range edges {
		out[e.S] = append(out[e.S], e)
	}
	init := `{"op":{"A":{"n":0,"st":"idle"},"B":{"n":0,"st":"idle"}},"pings":0}`
	if len(out[init]) == 0 {
		vlib.Infra("websocket schedule graph: no edge leaves %s", init)
	}
	var res [][]wsStep
	var walk func(s string, acc []wsStep)
	walk = func(s string, acc []wsStep) {
		es := out[s]
		if len(es) == 0 {
			res = append(res, append([]wsStep{}, acc...))
			return
		}
		sort.Slice(es, func(i, j int) bool { return string(es[i].A) < string(es[j].A) })
		for _, e := range es {
			var l wsStep
			if err := json.Unmarshal(e.A, &l); err != nil || l.Ev == "" {
				vlib.Infra("websocket schedule edge label %s: %v", e.A, err)
			}
			walk(e.T, append(acc, l))
		}
	}
	walk(init, nil)
	if len(res) != 280 { // 8!/(4! 3! 1!): A has 4 steps, B 3, one ping
		vlib.Infra("websocket schedule graph: %d maximal paths, expected 280", len(res))
	}
	return res
}

func wsSchedName(s []wsStep) string {
	var sb strings.Builder
	for i, st := range s {
		if i > 0 {
			sb.WriteByte(' ')
		}
		switch st.Ev {
		case "WsSubscribe":
			sb.WriteString("sub" + st.ID)
		case "WsPing":
			sb.WriteString("ping")
		case "WsEmit":
			sb.WriteString("event" + st.ID)
		case "WsComplete":
			sb.WriteString("end" + st.ID)
		}
	}
	return sb.String()
}

var wsOps = map[string]map[string]string{ // variant -> operation id -> document
	"B=subscription": {"A": `subscription { ticks(s: "A", n: 2) }`, "B": `subscription { ticks(s: "B", n: 1) }`},
	"B=query":        {"A": `subscription { ticks(s: "A", n: 2) }`, "B": `{ echo(s: "B") }`},
}

const wsWait = 15 * time.Second

// wsRun drives one schedule on one new connection of ls; returns the frames per id.
func wsRun(ls *liveServer, sched []wsStep, ops map[string]string, connID string) (frames []wsFrame, herr error) {
	h := map[string][]string{"X-Verif-Id": {connID}, "X-Req": {"ws"}}
	d := websocket.Dialer{Subprotocols: []string{"graphql-transport-ws"}, HandshakeTimeout: 10 * time.Second}
	conn, _, err := d.Dial("ws"+strings.TrimPrefix(ls.ts.URL, "http")+"/graphql", h)
	if err != nil {
		return nil, fmt.Errorf("ws dial: %w", err)
	}
	defer conn.Close()
	if err := conn.WriteMessage(websocket.TextMessage, []byte(`{"type":"connection_init"}`)); err != nil {
		return nil, err
	}
	v, ok := ls.store.Load(connID)
	if !ok {
		return nil, fmt.Errorf("ws connection unknown to the server")
	}
	rec := v.(*reqRec)
	gates := &gateSet{}
	rec.mu.Lock()
	rec.gates = gates
	rec.mu.Unlock()
	in := make(chan wsFrame, 64)
	rerr := make(chan error, 1)
	go func() {
		for {
			_, m, err := conn.ReadMessage()
			if err != nil {
				rerr <- err
				close(in)
				return
			}
			var f struct {
				ID      string          `json:"id"`
				Type    string          `json:"type"`
				Payload json.RawMessage `json:"payload"`
			}
			if err := json.Unmarshal(m, &f); err != nil {
				in <- wsFrame{Type: "unparsable", Payload: string(m)}
				continue
			}
			in <- wsFrame{ID: f.ID, Type: f.Type, Payload: string(f.Payload)}
		}
	}()
	// await reads frames until pred holds for one of them
	await := func(what string, pred func(wsFrame) bool) error {
		to := time.After(wsWait)
		for {
			select {
			case f, ok := <-in:
				if !ok {
					return fmt.Errorf("connection closed while waiting for %s", what)
				}
				if f.Type != "connection_ack" && f.Type != "pong" && f.Type != "ka" && f.Type != "ping" {
					frames = append(frames, f)
				}
				if pred(f) {
					return nil
				}
			case <-to:
				return fmt.Errorf("timeout waiting for %s", what)
			}
		}
	}
	if err := await("connection_ack", func(f wsFrame) bool { return f.Type == "connection_ack" }); err != nil {
		return frames, err
	}
	gated := func(id string) bool { return strings.HasPrefix(ops[id], "subscription") }
	emitted := map[string]int{}
	for _, st := range sched {
		switch st.Ev {
		case "WsSubscribe":
			msg := fmt.Sprintf(`{"id":%s,"type":"subscribe","payload":{"query":%s}}`, jstr(st.ID), jstr(ops[st.ID]))
			if err := conn.WriteMessage(websocket.TextMessage, []byte(msg)); err != nil {
				return frames, err
			}
			if gated(st.ID) {
				// the operation is registered and its source runs
				select {
				case <-gates.get(taggedOp(st.ID), "started"):
				case <-time.After(wsWait):
					return frames, fmt.Errorf("operation %s did not start", st.ID)
				}
			} else if err := await("the complete frame of the query", func(f wsFrame) bool { return f.Type == "complete" }); err != nil {
				return frames, err
			}
		case "WsPing":
			if err := conn.WriteMessage(websocket.TextMessage, []byte(`{"type":"ping"}`)); err != nil {
				return frames, err
			}
			if err := await("pong", func(f wsFrame) bool { return f.Type == "pong" }); err != nil {
				return frames, err
			}
		case "WsEmit":
			if !gated(st.ID) {
				continue // a query's frames are not held back: they came with the subscribe step
			}
			emitted[st.ID]++
			gates.open(taggedOp(st.ID), fmt.Sprintf("e%d", emitted[st.ID]))
			if err := await("a data frame", func(f wsFrame) bool { return f.Type == "next" || f.Type == "error" }); err != nil {
				return frames, err
			}
		case "WsComplete":
			if !gated(st.ID) {
				continue
			}
			gates.open(taggedOp(st.ID), "close")
			if err := await("a complete frame", func(f wsFrame) bool { return f.Type == "complete" }); err != nil {
				return frames, err
			}
		}
	}
	_ = conn.WriteMessage(websocket.CloseMessage, websocket.FormatCloseMessage(websocket.CloseNormalClosure, ""))
	return frames, nil
}

func taggedOp(id string) string { return id } // the tag of ticks(s: ...) is the operation id

// runWsInflight drives every schedule in both variants and judges the frames.
func runWsInflight(c *vlib.Check, rn *runner, scheds [][]wsStep) wsStats {
	st := wsStats{Schedules: len(scheds)}
	names := make([]string, 0, len(wsOps))
	for n := range wsOps {
		names = append(names, n)
	}
	sort.Strings(names)
	st.Variants = names
	nConn := 0
	reported := map[string]int{}
	for _, vn := range names {
		ops := wsOps[vn]
		// what each operation gets alone on a fresh connection of a fresh server (fresh process, nothing held back)
		want := map[string][]string{}
		for id, q := range ops {
			o, err := rn.or.alone(Concrete{WS: true, Payload: `{"query":` + jstr(q) + `}`})
			if err != nil {
				if d, ok := err.(*disagree); ok {
					c.Violate("fresh-servers-disagree", "websocket operation "+q+": "+d.Error(), map[string]any{"operation": q})
				} else {
					vlib.Infra("fresh-server oracle for websocket operation %s: %v", q, err)
				}
			}
			want[id] = o.Frames
			if len(o.Frames) < 2 {
				vlib.Infra("vacuous: websocket operation %s alone yields the frames %v", q, o.Frames)
			}
		}
		ls := startServer()
		for si, sched := range scheds {
			nConn++
			frames, herr := wsRun(ls, sched, ops, fmt.Sprintf("wsinflight-%d", nConn))
			st.Connections++
			st.Steps += int64(len(sched))
			st.Frames += int64(len(frames))
			running := map[string]bool{}
			for _, s := range sched {
				for id := range running {
					if id != s.ID {
						st.Overlaps++
						break
					}
				}
				switch s.Ev {
				case "WsSubscribe":
					running[s.ID] = true
				case "WsComplete":
					delete(running, s.ID)
				}
			}
			bad := wsJudge(frames, want, ops)
			if bad != "" {
				if reported[vn] < 3 {
					reported[vn]++
					note := ""
					if herr != nil {
						note = "\n(the run stopped early: " + herr.Error() + ")"
					}
					c.Violate("ws-inflight{"+vn+"}", fmt.Sprintf("one websocket connection, steps [%s] (%s):\n%sall frames in arrival order: %v%s",
						wsSchedName(sched), vn, bad, frames, note),
						map[string]any{"where": "ws-inflight", "variant": vn, "schedule": sched, "operations": ops, "frames": frames, "alone": want})
				}
				continue
			}
			if herr != nil {
				vlib.Infra("websocket schedule %d [%s] (%s): %v", si, wsSchedName(sched), vn, herr)
			}
		}
		ls.close()
	}
	return st
}

// wsJudge: per operation id the frames must be what the operation gets alone; no other id may occur.
func wsJudge(frames []wsFrame, want map[string][]string, ops map[string]string) string {
	got := map[string][]string{}
	for _, f := range frames {
		got[f.ID] = append(got[f.ID], f.Type+" "+f.Payload)
	}
	bad := ""
	for id := range got {
		if _, ok := want[id]; !ok {
			bad += fmt.Sprintf("frames carry the id %q, which no operation of the connection has: %v\n", id, got[id])
		}
	}
	ids := make([]string, 0, len(want))
	for id := range want {
		ids = append(ids, id)
	}
	sort.Strings(ids)
	for _, id := range ids {
		if canon(got[id]) != canon(want[id]) {
			bad += fmt.Sprintf("operation %s (%s) gets the frames %v under its id; alone on a fresh connection it gets %v\n", id, ops[id], got[id], want[id])
		}
	}
	return bad
}

// replayWs re-runs one recorded websocket schedule.
func replayWs(c *vlib.Check, b []byte) {
	var f struct {
		Scenario struct {
			Variant  string            `json:"variant"`
			Schedule []wsStep          `json:"schedule"`
			Ops      map[string]string `json:"operations"`
		} `json:"scenario"`
	}
	if err := json.Unmarshal(b, &f); err != nil || len(f.Scenario.Schedule) == 0 || len(f.Scenario.Ops) == 0 {
		vlib.Infra("replay: the file does not hold a websocket schedule (%v)", err)
	}
	rn := newRunner()
	want := map[string][]string{}
	for id, q := range f.Scenario.Ops {
		o, err := rn.or.alone(Concrete{WS: true, Payload: `{"query":` + jstr(q) + `}`})
		if err != nil {
			vlib.Infra("replay: oracle: %v", err)
		}
		want[id] = o.Frames
	}
	ls := startServer()
	defer ls.close()
	frames, herr := wsRun(ls, f.Scenario.Schedule, f.Scenario.Ops, "wsreplay")
	bad := wsJudge(frames, want, f.Scenario.Ops)
	fmt.Printf("replayed [%s] (%s): frames %v\n", wsSchedName(f.Scenario.Schedule), f.Scenario.Variant, frames)
	if bad != "" {
		c.Violate("ws-inflight{"+f.Scenario.Variant+"}", bad, nil)
	} else if herr != nil {
		vlib.Infra("replay: %v", herr)
	}
	c.AddTraces(1)
	c.AddEvals(int64(len(f.Scenario.Schedule)))
	c.Class("replay")
	c.Sample(map[string]any{"replay": "websocket", "steps": wsSchedName(f.Scenario.Schedule)})
	c.Finish()
}
