// C06: results are independent of resolver scheduling; mutation roots run
// serially; no data race (probe servers are built with -race).
package main

import (
	"math/rand"

	"verifharness/vlib"
)

func main() {
	c := vlib.NewCheck("C06", "model_checking")
	thorough := vlib.Tier() == "thorough"
	vs := vlib.ExecVariants(thorough)
	for i := range vs {
		vs[i].Race = true
	}
	bins, err := vlib.BuildProbes("exec", vs)
	if err != nil {
		vlib.Infra("build probes: %v", err)
	}
	n := 60
	if thorough {
		n = 600
	}
	vlib.ExecConformance(c, "C06", bins, vs, rand.New(rand.NewSource(vlib.Seed()+600)), n,
		vlib.ExecMode{Faults: true, Rogue: true, Sentinel: true, Devs: []vlib.DevStep{{Config: "GqlExecTraceDev.cfg", Key: vlib.LeafElemKey}}, Scheds: true, Mutations: true, PlansPer: 2, Env: []string{"GORACE=halt_on_error=1"}, Corpus: append(append(vlib.MergeCorpus("C06"), vlib.StressCorpus("C06", 64)...), vlib.VarShareCorpus("C06", 24)...)})
	c.Finish()
}
