// C18: generation is deterministic and idempotent.
//
// Specification: spec/Project.tla. Generate(seed, startDir, procs) does not
// read its parameters (Deterministic: gen' = F(schema, cfg)); Idempotent: a
// Generate step with nothing edited since the previous one changes nothing
// (except that the trailing WARNING block of a resolver file, by design the
// content of the LAST run, is gone). TLC checks both on the intended design
// (MC_Project.cfg, shared with C19) and exports the labelled state graph of
// the pinned tree (MC_Project_edges_c18*.cfg, all four layout combinations
// + two configurations whose autobind list contains the model output package:
// there every Generate loads the package holding the previous models_gen.go).
//
// Binding (replay): seeded histories of that graph are replayed through the
// real generator; EVERY Generate step is executed in >= 3 separate processes
// (fresh map seeds) with GOMAXPROCS in {1,4,16,...}, started from different
// directories inside the project (the config is found by walking up), on the
// tree holding previous output and on a tree whose generated files were
// removed; the projection is the SHA-256 of every .go file of the project;
// all runs must agree. Then the step is run once more with nothing edited:
// where the specification says the state is unchanged all hashes must be
// unchanged; where it says only the WARNING block goes away, only resolver
// files may change and the result must project onto the specified state.
//
// Part B: feature-rich schemas (the C17 renderer: interfaces, unions, enums,
// inputs, directives, several schema files, ... - many map keys) under a
// spread of configurations, the same multi-process protocol + second run.
package main

import (
	"bytes"
	"encoding/json"
	"fmt"
	"os"
	"path/filepath"
	"regexp"
	"sort"
	"strings"
	"sync"
	"sync/atomic"
	"time"

	"verifharness/projgen"
	"verifharness/vlib"
)

type variant struct {
	Procs int
	Dir   string
	Clean bool
}

func (v variant) String() string {
	return fmt.Sprintf("GOMAXPROCS=%d dir=%s clean=%v", v.Procs, v.Dir, v.Clean)
}

var variantsQuick = []variant{{1, ".", false}, {4, "graph", true}, {16, "graph/model", false}}
var variantsThorough = []variant{{1, ".", false}, {4, "graph", true}, {16, "graph/model", false}, {2, "tmp/deep/dir", true}, {8, ".", true}}

func isGo(rel string) bool { return strings.HasSuffix(rel, ".go") }

// removeGenerated deletes the files the generator owns entirely (executor, models).
func removeGenerated(root string) {
	_ = filepath.Walk(root, func(p string, info os.FileInfo, err error) error {
		if err != nil || info.IsDir() {
			return nil
		}
		b := filepath.Base(p)
		if b == "generated.go" || b == "models_gen.go" || strings.HasSuffix(b, ".generated.go") || b == "federation.go" || b == "stub.go" {
			_ = os.Remove(p)
		}
		return nil
	})
}

func generatedOnly(h map[string]string) map[string]string {
	o := map[string]string{}
	for k, v := range h {
		b := filepath.Base(k)
		if b == "generated.go" || b == "models_gen.go" || strings.HasSuffix(b, ".generated.go") || b == "federation.go" {
			o[k] = v
		}
	}
	return o
}

func kindOf(paths []string) string {
	set := map[string]bool{}
	for _, p := range paths {
		p = strings.Fields(p)[0]
		b := filepath.Base(p)
		switch {
		case b == "generated.go" || strings.HasSuffix(b, ".generated.go"):
			set["exec"] = true
		case b == "models_gen.go":
			set["models"] = true
		case strings.Contains(b, "resolver"):
			set["resolvers"] = true
		case b == "federation.go":
			set["federation"] = true
		default:
			set["other"] = true
		}
	}
	var ks []string
	for k := range set {
		ks = append(ks, k)
	}
	sort.Strings(ks)
	return strings.Join(ks, "+")
}

type handler struct {
	c        *vlib.Check
	variants []variant
	runs     int64
	steps    int64
	probes   int64
	warnOnly int64
	genFn    sync.Map // root|schema|cfg -> hash of exec+model files
	genConfl int64
	infra    []string
	mu       sync.Mutex
	sampled  int32
	// Generate steps / second runs under a configuration whose autobind list contains the model output package
	abGens, abProbes int
	abSampled        bool
}

func (h *handler) addInfra(s string) {
	h.mu.Lock()
	h.infra = append(h.infra, s)
	h.mu.Unlock()
}

func hashString(m map[string]string) string {
	ks := make([]string, 0, len(m))
	for k := range m {
		ks = append(ks, k)
	}
	sort.Strings(ks)
	var sb strings.Builder
	for _, k := range ks {
		sb.WriteString(k + "=" + m[k] + ";")
	}
	return sb.String()
}

// multiRun executes one Generate step under every variant from the same
// pre-state and compares outcome class and hashes (pure hash equality: no
// model is involved in this verdict). It leaves the tree in the post-state.
func (h *handler) multiRun(root string, restore func() error, label string, replay any) (projgen.GenOutcome, map[string]string, bool) {
	return h.multiRunV(h.variants, root, restore, label, replay)
}

func (h *handler) multiRunV(variants []variant, root string, restore func() error, label string, replay any) (projgen.GenOutcome, map[string]string, bool) {
	var first projgen.GenOutcome
	var firstH map[string]string
	ok := true
	for vi, v := range variants {
		if vi > 0 {
			if err := restore(); err != nil {
				h.addInfra("restore: " + err.Error())
				return first, firstH, false
			}
		}
		if v.Clean {
			removeGenerated(root)
		}
		out := projgen.RunGen(root, projgen.GenOpts{StartDir: v.Dir, GoMaxProcs: v.Procs})
		atomic.AddInt64(&h.runs, 1)
		if out.Class == "timeout" || out.Class == "crash" {
			h.addInfra(fmt.Sprintf("generator %s (%s)\n%s", out.Class, label, tail(out.Stderr, 800)))
			return out, firstH, false
		}
		hs, err := projgen.HashTree(root, isGo)
		if err != nil {
			h.addInfra("hash: " + err.Error())
			return first, firstH, false
		}
		if vi == 0 {
			first, firstH = out, hs
			continue
		}
		if out.Class != first.Class {
			h.c.Violate("C18:outcome-depends-on-run-parameters", fmt.Sprintf("%s\nrun [%s] ended %s, run [%s] ended %s\n%s", label, variants[0], first.Class, v, out.Class, tail(out.Stderr, 800)), replay)
			ok = false
			continue
		}
		if d := projgen.DiffHashes(firstH, hs); len(d) > 0 {
			h.c.Violate("C18:nondeterministic-output:"+kindOf(d), fmt.Sprintf("%s\nthe same Generate step, run as separate processes from the same tree, wrote different bytes:\n  run A: %s\n  run B: %s\n  differing files: %v", label, variants[0], v, d), replay)
			ok = false
		}
	}
	return first, firstH, ok
}

func (h *handler) WantBuild(pre *projgen.PState) bool { return false }

func (h *handler) RunGenerate(c *projgen.Conc, pre *projgen.PState, path []*projgen.REdge) projgen.GenOutcome {
	atomic.AddInt64(&h.steps, 1)
	label := "history: " + projgen.PathString(path) + fmt.Sprintf("  [resolver layout %s, exec layout %s]", pre.Cfg.Rl, pre.Cfg.El)
	snap, err := c.Snapshot()
	if err != nil {
		h.addInfra(err.Error())
		return projgen.GenOutcome{Class: "crash"}
	}
	replay := projgen.ReplayObject(&projgen.StepRec{Kind: "gen", Path: path, Seed: c.Seed, Pairs: c.Pairs, SFiles: c.Files, Init: initOf(path)})
	first, _, _ := h.multiRun(c.Root, func() error { return c.Restore(snap) }, label, replay)
	return first
}

func initOf(path []*projgen.REdge) string {
	if len(path) > 0 {
		return path[0].S
	}
	return ""
}

// AfterGenerate: the tree is in the post-state of a (first or later) run: run Generate once more with
// nothing edited, record the observed step for TLC (postcondition Idempotent) and the byte-level
// differences, restore the tree.
func (h *handler) AfterGenerate(r *projgen.Replayer, c *projgen.Conc, rec *projgen.StepRec) {
	if rec.Gen == nil || !rec.Gen.OK() || !rec.Post.Ok {
		return
	}
	h.c.AddEvals(1)
	hs, err := projgen.HashTree(c.Root, isGo)
	if err != nil {
		h.addInfra(err.Error())
		return
	}
	// gen' = F(schema, cfg), informative only (the statement allows the output to depend on Go sources)
	fp, _ := json.Marshal([]any{rec.Post.Schema, rec.Post.Texists, rec.Post.Cfg})
	gh := hashString(generatedOnly(hs))
	if old, loaded := h.genFn.LoadOrStore(c.Root+"|"+string(fp), gh); loaded && old.(string) != gh {
		atomic.AddInt64(&h.genConfl, 1)
	}
	post, err := c.Snapshot()
	if err != nil {
		h.addInfra(err.Error())
		return
	}
	defer func() {
		if err := c.Restore(post); err != nil {
			h.addInfra(err.Error())
		}
	}()
	out2 := projgen.RunGen(c.Root, projgen.GenOpts{StartDir: "graph", GoMaxProcs: 3})
	atomic.AddInt64(&h.runs, 1)
	atomic.AddInt64(&h.probes, 1)
	if out2.Class == "timeout" || out2.Class == "crash" {
		h.addInfra("generator " + out2.Class + " in second run")
		return
	}
	hs2, _ := projgen.HashTree(c.Root, isGo)
	var genChanged, resChanged []string
	for _, f := range projgen.DiffHashes(hs, hs2) {
		name := strings.Fields(f)[0]
		after, err := os.ReadFile(filepath.Join(c.Root, name))
		before, had := post[name]
		switch {
		case len(generatedOnly(map[string]string{name: ""})) > 0:
			genChanged = append(genChanged, f)
		case had && err == nil && strings.Contains(filepath.Base(name), "resolver") && onlyWarnBlockRemoved(before, after):
			// by design (and by the C19 statement) the WARNING block is the content of the last run only
			atomic.AddInt64(&h.warnOnly, 1)
			h.c.Class("second-run-drops-warning-block:" + rec.Post.Cfg.Rl)
		default:
			resChanged = append(resChanged, f)
		}
	}
	obs := c.Project()
	pre := *rec.Post
	pre.Dirty, pre.Comp = "clean", "unk"
	book := pre
	probe := &projgen.StepRec{Kind: "probe", Act: projgen.PAction{Name: "Generate"}, Pre: &pre, Post: projgen.WithObs(&book, obs), Obs: obs, Gen: &out2,
		Path: rec.Path, Init: rec.Init, Files: c.ReportFiles(), Seed: c.Seed, Pairs: c.Pairs, SFiles: c.Files,
		Extra: map[string]any{"genChanged": genChanged, "resChanged": resChanged, "after": rec.Kind}}
	r.Add(probe)
	if atomic.AddInt32(&h.sampled, 1) <= 3 {
		h.c.Sample(map[string]any{"history": projgen.PathString(rec.Path), "cfg": rec.Post.Cfg, "processes": len(h.variants) + 1, "files_hashed": len(hs)})
	}
}

// judge turns the recorded second runs + TLC's verdicts (postcondition Idempotent of the intended
// design, evaluated on the observed pre/post states) into the check's verdict.
func (h *handler) judge(recs []*projgen.StepRec) (accepted, violating, drift int) {
	for _, rec := range recs {
		switch rec.Kind {
		case "init":
			if d, _ := rec.Extra["initDiffs"].([]string); len(d) > 0 && rec.Gen != nil && (rec.Gen.Class == "timeout" || rec.Gen.Class == "crash") {
				h.addInfra("initial generation: " + rec.Gen.Class)
			}
		case "edit":
			if rec.V == nil || !rec.V.Same {
				h.addInfra(fmt.Sprintf("after user edit %s the real tree does not project onto the successor of the specification's edit action (harness problem): %v", rec.Act, rec.Obs.Notes))
			}
		case "gen":
			if rec.Drift {
				drift++
			}
			ab := rec.Pre.Cfg.Ab
			if ab == "" {
				ab = "none"
			}
			if ab != "none" {
				h.abGens++
			}
			h.c.Class("gen:" + rec.Pre.Cfg.Rl + "/" + rec.Pre.Cfg.El + "/autobind-model-pkg=" + ab + ":" + rec.Pre.Dirty)
		case "probe":
			label := "history: " + projgen.PathString(rec.Path) + fmt.Sprintf("  [resolver layout %s, exec layout %s]", rec.Pre.Cfg.Rl, rec.Pre.Cfg.El)
			if len(rec.Path) == 0 {
				label = fmt.Sprintf("freshly generated project [resolver layout %s, exec layout %s]", rec.Pre.Cfg.Rl, rec.Pre.Cfg.El)
			}
			replay := projgen.ReplayObject(rec)
			if rec.Pre.Cfg.Ab != "" && rec.Pre.Cfg.Ab != "none" {
				h.abProbes++
				label += fmt.Sprintf("  [autobind lists %s]", map[string]string{"model": "the model output package graph/model, which holds only a doc file next to models_gen.go", "hand": "the model output package graph/model, which holds the hand-written model Account next to models_gen.go",
					"exec": "the exec package graph (generated.go); the schema has the types Config and ResolverRoot, named like top-level identifiers of generated.go"}[rec.Pre.Cfg.Ab])
				if !h.abSampled && rec.Gen != nil && rec.Gen.OK() {
					h.abSampled = true
					h.c.Sample(map[string]any{"history": projgen.PathString(rec.Path), "cfg": rec.Pre.Cfg, "what": "Generate run again on the tree holding the previous models_gen.go inside an autobound package", "outcome": rec.Gen.Class})
				}
			}
			genChanged, _ := rec.Extra["genChanged"].([]string)
			resChanged, _ := rec.Extra["resChanged"].([]string)
			bad := false
			if rec.Gen != nil && rec.Gen.Class != "ok" {
				h.c.Violate("C18:second-run-fails", fmt.Sprintf("%s\nrunning Generate again with nothing edited ended %s\n%s", label, rec.Gen.Class, tail(rec.Gen.Stderr, 800)), replay)
				violating++
				continue
			}
			if len(genChanged) > 0 {
				h.c.Violate("C18:second-run-changes-generated-files:"+kindOf(append(genChanged, resChanged...)), fmt.Sprintf("%s\nrunning Generate again with nothing edited changed: %v", label, append(genChanged, resChanged...)), replay)
				bad = true
			}
			if rec.V == nil {
				h.addInfra("no verdict from ProjectStep for " + rec.ID)
				continue
			}
			keys, violated := rec.V.Findings("C18", rec.Pre.Cfg.Rl)
			for _, k := range keys {
				h.c.Violate(k, fmt.Sprintf("%s\n%s\nrunning Generate again with nothing edited changed %v\nviolated postcondition (spec/Project.tla, intended design): %v; observed post-state explained by deviations: %v (explained=%v)\nnotes: %v",
					projgen.WhatOf(k), label, resChanged, violated, rec.V.D, rec.V.Explained, rec.Obs.Notes), replay)
				bad = true
			}
			if len(keys) == 0 && len(resChanged) > 0 {
				// the abstract state is unchanged but bytes of user-owned files are not
				h.c.Violate("C18:second-run-changes-files:"+kindOf(resChanged), fmt.Sprintf("%s\nrunning Generate again with nothing edited changed: %v (more than the removal of the WARNING block)", label, resChanged), replay)
				bad = true
			}
			if bad {
				violating++
			} else {
				accepted++
			}
		}
	}
	return
}

const keyRoot = "C18:single-file-root-type-moves-into-warning-block-on-rerun"
const keyStale = "C18:stale-resolver-file-second-run-changes-output"

var reRootType = regexp.MustCompile(`^type \w+ struct\s*\{\s*\}$`)

// rootWarnAppended: after == before + a WARNING block (block- or line-comment form) that carries only the root resolver type.
func rootWarnAppended(before, after []byte) bool {
	b := bytes.TrimRight(before, "\n")
	if !bytes.HasPrefix(after, b) || !bytes.HasPrefix(bytes.TrimLeft(after[len(b):], "\n"), []byte("// !!! WARNING !!!")) {
		return false
	}
	if _, had := projgen.WarnText(before); had {
		return false
	}
	txt, ok := projgen.WarnText(after)
	return ok && reRootType.MatchString(strings.TrimSpace(txt))
}

// onlyWarnBlockRemoved: after == before without its trailing WARNING block (either representation:
// everything from the marker line to the end of the file).
func onlyWarnBlockRemoved(before, after []byte) bool {
	i := bytes.Index(before, []byte("\n// !!! WARNING !!!\n"))
	if i < 0 {
		return false
	}
	return bytes.Equal(bytes.TrimSpace(before[:i]), bytes.TrimSpace(after))
}

func tail(s string, n int) string {
	if len(s) > n {
		return "..." + s[len(s)-n:]
	}
	return s
}

// ---- part B: feature-rich schemas ------------------------------------------------

// ---- part C: object cycles under the non-default values of the options that steer modelgen / codegen ----

const cycleSDL = `type Query {
  order(id: ID!): Order
  orders(filter: OrderFilter): [Order!]!
  node: Node!
  ring: RingA!
  search: [Hit!]!
  shapes: [Shape]
  invoice: Invoice
  receipt: Receipt
}

# 2-cycle with two edges one way, all non-null
type Order {
  id: ID!
  buyer: Customer!
  payer: Customer!
  status: OrderStatus!
  lines: [Line!]!
}
type Customer {
  id: ID!
  lastOrder: Order!
  tier: Tier
  friends: [Customer]
}
type Line {
  order: Order!
  qty: Int!
  price: Float
}

# two generated types whose names collide after Go-casing, each used as a field type by a DIFFERENT other type
# (which of them gets the numbered Go name must not depend on map order)
type Line_Item { id: ID! sku: String }
type LineItem { id: ID! qty: Int }
type Http_Error { code: Int! }
type HTTPError { code: Int! text: String }
type Invoice { id: ID! lines: [Line_Item!]! first: Line_Item err: Http_Error }
type Receipt { id: ID! lines: [LineItem!]! last: LineItem err: HTTPError }

# 3-cycle of non-null fields
type RingA { b: RingB! name: String }
type RingB { c: RingC! name: String }
type RingC { a: RingA! name: String }

# self-reference directly and through a list
type Node implements Shape {
  id: ID!
  parent: Node
  self: Node!
  children: [Node!]!
  matrix: [[Node]]
}

interface Shape { id: ID! }
interface Named { name: String }
interface Priced implements Named { name: String price: Float! }
type Circle implements Shape { id: ID! r: Float! }
type Box implements Shape & Named { id: ID! name: String owner: Customer! }
type Item implements Priced & Named { name: String price: Float! order: Order! }
union Hit = Order | Customer | Node | Item | Circle

enum OrderStatus { NEW PAID SHIPPED CANCELLED }
enum Tier { BRONZE SILVER GOLD }
enum Axis { X Y Z }

# cycle through input types
input OrderFilter {
  and: [OrderFilter!]
  not: OrderFilter
  range: RangeIn!
  status: [OrderStatus!] = [NEW, PAID]
  axis: Axis = X
}
input RangeIn {
  min: Int = 0
  max: Int
  filter: OrderFilter
  opts: RangeOpts = {inclusive: true, step: 2, label: "d"}
}
input RangeOpts { inclusive: Boolean step: Int label: String }

type Mutation {
  place(in: OrderFilter!, r: RangeIn): Order!
}
`

type cycleCfg struct {
	name string
	opts map[string]bool
	exec string // single | follow
}

func cycleYAML(cc cycleCfg) string {
	var sb strings.Builder
	sb.WriteString("schema: [\"*.graphqls\"]\n")
	if cc.exec == "follow" {
		sb.WriteString("exec:\n  layout: follow-schema\n  dir: graph\n  package: graph\n")
	} else {
		sb.WriteString("exec:\n  filename: graph/generated.go\n  package: graph\n")
	}
	sb.WriteString("model:\n  filename: graph/model/models_gen.go\n  package: model\n")
	sb.WriteString("resolver:\n  layout: follow-schema\n  dir: graph\n  package: graph\n")
	sb.WriteString("skip_mod_tidy: true\nskip_validation: true\nomit_gqlgen_version_in_file_notice: true\n")
	ks := make([]string, 0, len(cc.opts))
	for k := range cc.opts {
		ks = append(ks, k)
	}
	sort.Strings(ks)
	for _, k := range ks {
		fmt.Fprintf(&sb, "%s: %v\n", k, cc.opts[k])
	}
	return sb.String()
}

// the non-default value of every boolean option that influences modelgen / codegen decisions
var cycleOpts = []struct {
	k string
	v bool
}{
	{"struct_fields_always_pointers", false}, {"omit_slice_element_pointers", true}, {"resolvers_always_return_pointers", false},
	{"nullable_input_omittable", true}, {"omit_getters", true}, {"enable_model_json_omitempty_tag", false},
	{"enable_model_json_omitzero_tag", true}, {"return_pointers_in_unmarshalinput", true}, {"omit_root_models", true},
	{"omit_resolver_fields", true}, {"omit_complexity", true},
}

// cycleSchemas: one schema with non-null object cycles of several shapes (2-cycle with two edges one
// way, 3-cycle, self-reference directly / through lists, cycle through input types), generated under
// the non-default value of each option (struct_fields_always_pointers: false always among them),
// nproc separate processes per configuration; verdict = hash equality of every generated file. The
// output need not compile (the 3-cycle under struct_fields_always_pointers: false is C17's finding).
func (h *handler) cycleSchemas(seed int64, nproc int, thorough bool) int {
	cfgs := []cycleCfg{
		{"sfap_false", map[string]bool{"struct_fields_always_pointers": false}, "single"},
	}
	all := map[string]bool{}
	for _, o := range cycleOpts {
		all[o.k] = o.v
	}
	cfgs = append(cfgs, cycleCfg{"all_nondefault", all, "follow"})
	// every single non-default option (thorough), a seeded pair of them (quick)
	rest := cycleOpts[1:]
	if thorough {
		for _, o := range rest {
			cfgs = append(cfgs, cycleCfg{o.k, map[string]bool{o.k: o.v}, "single"})
			cfgs = append(cfgs, cycleCfg{"sfap_false+" + o.k, map[string]bool{"struct_fields_always_pointers": false, o.k: o.v}, "follow"})
		}
	} else {
		i := int(uint64(seed) % uint64(len(rest)))
		j := int((uint64(seed)*7 + 3) % uint64(len(rest)))
		cfgs = append(cfgs, cycleCfg{"sfap_false+" + rest[i].k, map[string]bool{"struct_fields_always_pointers": false, rest[i].k: rest[i].v}, "follow"})
		cfgs = append(cfgs, cycleCfg{rest[j].k, map[string]bool{rest[j].k: rest[j].v}, "single"})
	}
	var variants []variant
	procs := []int{1, 4, 16, 2, 8, 3, 6, 12, 5, 7, 9, 10}
	for i := 0; i < nproc; i++ {
		variants = append(variants, variant{procs[i%len(procs)], []string{".", "graph", "graph/model"}[i%3], i%2 == 1})
	}
	projgen.Parallel(len(cfgs), 2, func(i int) {
		cc := cfgs[i]
		name := fmt.Sprintf("c18_cyc%d", i)
		root := projgen.GenRoot(name)
		_ = os.RemoveAll(root)
		defer os.RemoveAll(root)
		if err := os.MkdirAll(filepath.Join(root, "graph", "model"), 0o755); err != nil {
			h.addInfra(err.Error())
			return
		}
		_ = os.WriteFile(filepath.Join(root, "gqlgen.yml"), []byte(cycleYAML(cc)), 0o644)
		_ = os.WriteFile(filepath.Join(root, "cycles.graphqls"), []byte(cycleSDL), 0o644)
		label := fmt.Sprintf("cycle schema under %s (exec layout %s)", cc.name, cc.exec)
		replay := map[string]any{"schema": "cycleSDL (harness/cmd/c18/main.go)", "gqlgen.yml": cycleYAML(cc)}
		h.c.AddEvals(1)
		h.c.Class("cycles:" + cc.name)
		g0 := projgen.RunGen(root, projgen.GenOpts{Explicit: true})
		atomic.AddInt64(&h.runs, 1)
		if !g0.OK() {
			if g0.Class == "timeout" || g0.Class == "crash" {
				h.addInfra("generator " + g0.Class)
			} else {
				h.addInfra(fmt.Sprintf("cycle schema is not generable under %s: %s", cc.name, tail(g0.Stderr, 600)))
			}
			return
		}
		snap := projgen.NewConc(root, "", 0, nil, nil)
		pre, err := snap.Snapshot()
		if err != nil {
			h.addInfra(err.Error())
			return
		}
		h0, _ := projgen.HashTree(root, isGo)
		first, hs, ok := h.multiRunV(variants, root, func() error { return snap.Restore(pre) }, label, replay)
		if ok && !first.OK() && first.Class != "timeout" && first.Class != "crash" {
			h.c.Violate("C18:second-run-fails", fmt.Sprintf("%s\nthe first generation (clean tree) succeeded; running Generate again on the tree holding its output, nothing edited, ended %s in every process\n%s", label, first.Class, tail(first.Stderr, 800)), replay)
		}
		if !ok || !first.OK() {
			return
		}
		if d := projgen.DiffHashes(h0, hs); len(d) > 0 {
			h.c.Violate("C18:second-run-changes-files:"+kindOf(d), fmt.Sprintf("%s\nrunning Generate again on the freshly generated tree, nothing edited, changed: %v", label, d), replay)
		}
	})
	return len(cfgs)
}

func (h *handler) richSchemas(n int, seed int64) {
	rows := projgen.C17FixedRows()
	if len(rows) == 0 {
		h.addInfra("no feature rows")
		return
	}
	projgen.Parallel(n, 3, func(i int) {
		row := rows[i%len(rows)].Clone()
		if i >= len(rows) {
			// spread of configurations: seeded flips of the boolean options, layouts, worker_limit
			x := uint64(seed)*0x9E3779B97F4A7C15 + uint64(i)*0xBF58476D1CE4E5B9
			next := func(n uint64) uint64 {
				x ^= x << 13
				x ^= x >> 7
				x ^= x << 17
				return x % n
			}
			for _, f := range projgen.C17YamlBool {
				if f != "skip_validation" && next(3) == 0 {
					row[f] = !row.B(f)
				}
			}
			row["execFollow"] = next(2) == 0
			row["resolver"] = []string{"single", "follow"}[next(2)]
			row["worker_limit"] = []int{0, 1, 2, 8}[next(4)]
		}
		name := fmt.Sprintf("c18_rich%d", i)
		root := projgen.GenRoot(name)
		_ = os.RemoveAll(root)
		defer os.RemoveAll(root)
		rseed := seed*1000 + int64(i)
		if err := projgen.C17RenderProject(root, projgen.ImportBase(name), row, rseed); err != nil {
			h.addInfra("render: " + err.Error())
			return
		}
		label := fmt.Sprintf("feature-rich schema %d (row %s, render seed %d)", i, row.Label(row.NonDefault()), rseed)
		replay := map[string]any{"row": row, "render_seed": rseed}
		h.c.AddEvals(1)
		h.c.Class("rich:" + row.ClassKey())
		// first generation on a clean tree, then the protocol on the tree holding previous output
		g0 := projgen.RunGen(root, projgen.GenOpts{Explicit: true})
		atomic.AddInt64(&h.runs, 1)
		if !g0.OK() {
			if g0.Class == "timeout" || g0.Class == "crash" {
				h.addInfra("generator " + g0.Class)
			}
			return // not generable: C17's subject
		}
		snap := projgen.NewConc(root, "", 0, nil, nil)
		pre, err := snap.Snapshot()
		if err != nil {
			h.addInfra(err.Error())
			return
		}
		h0, _ := projgen.HashTree(root, isGo)
		first, hs, ok := h.multiRun(root, func() error { return snap.Restore(pre) }, label, replay)
		if ok && !first.OK() && first.Class != "timeout" && first.Class != "crash" {
			// the first generation succeeded; generating again on the tree it left behind, nothing edited, does not
			h.c.Violate("C18:second-run-fails", fmt.Sprintf("%s\nthe first generation (clean tree) succeeded; running Generate again on the tree holding its output, nothing edited, ended %s in every process\n%s", label, first.Class, tail(first.Stderr, 800)), replay)
		}
		if !ok || !first.OK() {
			return
		}
		if d := projgen.DiffHashes(h0, hs); len(d) > 0 {
			if len(d) == 1 && strings.HasSuffix(d[0], "resolver.go") {
				after, _ := os.ReadFile(filepath.Join(root, d[0]))
				if rootWarnAppended(pre[d[0]], after) {
					h.c.Violate(keyRoot, fmt.Sprintf("%s\nrunning Generate again on the freshly generated tree, nothing edited, appended a WARNING block holding `type Resolver struct{}` to %s", label, d[0]), replay)
					return
				}
			}
			h.c.Violate("C18:second-run-changes-files:"+kindOf(d), fmt.Sprintf("%s\nrunning Generate again on the freshly generated tree, nothing edited, changed: %v", label, d), replay)
		}
		atomic.AddInt64(&h.probes, 1)
	})
}

// runReplayFile re-runs one recorded history (./check C18 --replay file).
func runReplayFile(file string) {
	g, p, seed, pairs, files, err := projgen.LoadReplay(file)
	if err != nil {
		vlib.Infra("replay: %v (feature-rich schema scenarios are re-run by ./check C18 with the recorded VERIF_SEED)", err)
	}
	if _, err := projgen.BuildPgen(); err != nil {
		vlib.Infra("%v", err)
	}
	c := vlib.NewCheck("C18", "exploration")
	h := &handler{c: c, variants: variantsThorough}
	rep := &projgen.Replayer{G: g, H: h, Name: "c18_replay", Seed: seed, Pairs: pairs, Files: files, Workers: 1}
	rep.Run(map[string]*projgen.Trie{g.Inits[0]: projgen.PathTrie([][]*projgen.REdge{p})})
	fmt.Printf("C18 replay: %s: %d Generate steps, %d generator processes\n", projgen.PathString(p), h.steps, h.runs)
	if _, _, err := projgen.JudgeSteps(rep.Recs, len(pairs), vlib.Work("C18", "replay-judge")); err != nil {
		vlib.Infra("ProjectStep (verdicts): %v", err)
	}
	acc, viol, _ := h.judge(rep.Recs)
	fmt.Printf("C18 replay: %d second runs satisfy Idempotent, %d do not\n", acc, viol)
	if len(rep.Errs)+len(h.infra) > 0 {
		vlib.Infra("%v %v", rep.Errs, h.infra)
	}
	c.AddTraces(1)
	c.Finish()
}

func main() {
	if rp := os.Getenv("VERIF_REPLAY"); rp != "" {
		runReplayFile(rp)
		return
	}
	c := vlib.NewCheck("C18", "exploration")
	thorough := vlib.Tier() == "thorough"
	seed := vlib.Seed()
	scratch := vlib.Work("C18")
	_ = os.RemoveAll(scratch)
	t0 := time.Now()
	if _, err := projgen.BuildPgen(); err != nil {
		vlib.Infra("%v", err)
	}
	mcDone := make(chan *vlib.TLCResult, 1)
	go func() {
		r, err := vlib.RunTLC(vlib.TLCOpts{Module: "MC_Project", Config: "MC_Project.cfg", Workers: 3, Scratch: scratch + "/mc", Timeout: 25 * time.Minute})
		if err != nil {
			r = &vlib.TLCResult{Output: err.Error()}
		}
		mcDone <- r
	}()
	edgeCfg, nSteps, nRich := "MC_Project_edges_c18.cfg", 22, 6
	pairs := []string{"Query_f1", "T_g"}
	h := &handler{c: c, variants: variantsQuick}
	if thorough {
		nSteps, nRich = 150, 40
		h.variants = variantsThorough
	}
	override, curDevs, err := projgen.SpecOverride()
	if err != nil {
		vlib.Infra("%v", err)
	}
	fmt.Printf("C18: tours are generated from the model with the deviations listed open in known_findings.d: %v\n", curDevs)
	er, err := vlib.RunTLC(vlib.TLCOpts{Module: "MC_Project", Config: edgeCfg, Workers: 1, Scratch: scratch + "/edges", Timeout: 15 * time.Minute, HeapGB: 8, Data: override})
	if err != nil {
		vlib.Infra("TLC: %v", err)
	}
	if !er.OK {
		vlib.Infra("TLC reports an error on the model itself (%s):\n%s", edgeCfg, tail(er.Output, 4000))
	}
	g, err := projgen.LoadGraph(er.Printed)
	if err != nil {
		vlib.Infra("edge export: %v", err)
	}
	er.Printed, er.Output = nil, ""
	tries, n := g.SampleTries(nSteps, seed)
	var nEdges, nGen int
	for _, t := range tries {
		a, b := t.Count()
		nEdges += a
		nGen += b
	}
	fmt.Printf("C18: %s: %d states, %d edges, %d initial states; %d sampled Generate edges -> prefix tree with %d edges (%d Generate steps x %d processes + second run)  [%.0fs]\n",
		edgeCfg, len(g.States), len(g.Edges), len(g.Inits), n, nEdges, nGen, len(h.variants), time.Since(t0).Seconds())

	var wg sync.WaitGroup
	wg.Add(1)
	nCyc, nCycProc := 0, 6
	if thorough {
		nCycProc = 10
	}
	go func() { defer wg.Done(); h.richSchemas(nRich, seed); nCyc = h.cycleSchemas(seed, nCycProc, thorough) }()
	rep := &projgen.Replayer{G: g, H: h, Name: "c18", Seed: seed * 104729, Pairs: pairs, Files: []string{"a", "b"}, Workers: 3}
	rep.Run(tries)
	wg.Wait()
	fmt.Printf("C18: %d Generate steps of replayed histories + %d feature-rich schemas; %d generator processes; %d second runs (%d files dropping only the WARNING block); mean generator time %.2fs  [%.0fs]\n",
		h.steps, nRich, h.runs+rep.Stats.Inits, h.probes, h.warnOnly, float64(projgen.GenNanos)/1e9/float64(projgen.GenCount+1), time.Since(t0).Seconds())
	js, jg, err := projgen.JudgeSteps(rep.Recs, len(pairs), scratch+"/judge")
	if err != nil {
		vlib.Infra("ProjectStep (verdicts): %v", err)
	}
	accepted, violating, drift := h.judge(rep.Recs)
	fmt.Printf("C18: verdicts by TLC (ProjectStep): %d second runs satisfy the postcondition Idempotent of the intended design, %d do not; implementation-level drift from the tour model on %d Generate steps (not a verdict)  [%.0fs]\n",
		accepted, violating, drift, time.Since(t0).Seconds())
	c.AddStates(js, jg)

	mc := <-mcDone
	if !mc.OK {
		vlib.Infra("TLC reports an error on the model itself (MC_Project.cfg):\n%s", tail(mc.Output, 4000))
	}
	if len(rep.Errs)+len(h.infra) > 0 {
		all := append(append([]string{}, rep.Errs...), h.infra...)
		vlib.Infra("%d harness-side problems, first:\n%s", len(all), all[0])
	}
	if h.steps == 0 || h.probes == 0 {
		vlib.Infra("vacuous: no Generate step replayed")
	}
	if h.abProbes == 0 {
		vlib.Infra("vacuous: no second run under a configuration that autobinds the model output package")
	}
	c.AddStates(mc.Distinct, mc.Generated)
	c.AddTraces(int64(n))
	c.Set("rule", "seeded sample of Generate edges of the Project.tla state graph (all four layout combinations) reached by their BFS-shortest histories, plus feature-rich schemas from the C17 renderer; each Generate step = one evaluation, executed in several processes (GOMAXPROCS, start directory, clean / previous-output tree varied; verdict = hash equality) and once more with nothing edited (verdict = TLC evaluates the postcondition Idempotent of the intended design on the observed pre/post states, plus byte equality of generated files); a class = (layouts, kind of edits since last run, deviations) or a feature row")
	c.Set("processes", map[string]any{"generator_processes": h.runs + rep.Stats.Inits, "variants_per_step": len(h.variants), "second_run_probes": h.probes, "second_runs_accepted": accepted, "second_runs_violating": violating, "impl_level_drift": drift, "tour_model_deviations": curDevs, "second_runs_dropping_only_warning_block": h.warnOnly, "generate_steps_with_autobound_model_package": h.abGens, "second_runs_with_autobound_model_package": h.abProbes, "rich_schemas": nRich, "cycle_schema_configurations": nCyc, "processes_per_cycle_configuration": nCycProc + 1})
	c.Set("gen_function_conflicts", h.genConfl)
	c.Assume("configurations: all four (resolver layout x exec layout) combinations without autobind, plus two whose autobind list contains the model output package graph/model (with / without a hand-written model in it), plus one whose autobind list contains the exec package (schema types Config / ResolverRoot, named like top-level identifiers of generated.go): there every Generate of a history - and the second run after it - loads the package holding the previous models_gen.go; a second run that fails is C18:second-run-fails, a Generate whose outcome differs between the tree holding previous output and the tree without generated files is C18:outcome-depends-on-run-parameters")
	c.Assume("map-order nondeterminism is probabilistic: a missing sort over k >= 3 keys escapes one comparison of two processes with probability <= 1/k!; the number of process starts is reported")
	c.Assume("idempotence is demanded for every file except that the trailing WARNING block of a resolver file is, by gqlgen's design and by the C19 statement, the content of the last run only: a second run removes it (spec/Project.tla Idempotent)")
	c.Assume("gen' = F(schema, cfg) is checked by TLC on the model; on the code it is only recorded (gen_function_conflicts), because the statement allows generated files to depend on Go sources")
	c.Finish()
}
