// C16: introspection mirrors the schema exactly, and reveals nothing when disabled.
//
// spec/Introspect.tla is the oracle. TLC enumerates the bounded schema space
// (MC_Introspect) and evaluates the views of schemas drawn by the seeded
// generator (Feed_Introspect), checking Rebuild(View(S)) = S and the other
// theorems on every schema. Each schema is rendered as SDL, loaded by
// gqlparser and served (a) by the runtime introspection package through the Go
// API the generated code calls and (b) by generated servers built from /repo's
// current templates (Config.Schema override); the answers to the standard
// introspection query are rebuilt and compared element-wise with the views.
// The gate machine of the same module yields every hiding operation with the
// outcome it must have; each is run through the real executor with and without
// extension.Introspection{}.
package main

import (
	"encoding/json"
	"fmt"
	"math/rand"
	"os"
	"path/filepath"
	"sort"
	"strconv"
	"strings"
	"sync"
	"time"

	"github.com/vektah/gqlparser/v2"
	"github.com/vektah/gqlparser/v2/ast"

	"verifharness/c16lib"
	"verifharness/ur"
	"verifharness/vlib"
)

const prop = "C16"

type server struct {
	variant string
	fed     bool
	// embedded: the schema files lie inside the executor's directory (//go:embed delivery); the delivery matters
	// for the server's OWN schema only, so rendered schemas (Config.Schema) are served by it only now and then
	embedded bool
	procs   []*vlib.Proc
}

type reporter struct {
	c     *vlib.Check
	mu    sync.Mutex
	seen  map[string]int
	toler map[string]int
	texts map[string]int // text position x text class of the loaded schemas ("own/" prefix: the probe's own schema)
}

func (r *reporter) noteTexts(prefix string, sch *ast.Schema) {
	loc := map[string]int{}
	c16lib.TextPositions(sch, func(pos, where, v string) {
		if v == "" {
			return
		}
		for _, cl := range c16lib.TextClasses(v) {
			loc[prefix+pos+":"+cl]++
		}
	})
	r.mu.Lock()
	for k, v := range loc {
		r.texts[k] += v
	}
	r.mu.Unlock()
}

// report forwards at most two mismatches per key to the evidence (the first ones, with replay objects).
func (r *reporter) report(m c16lib.Mismatch, path string, scenario any) {
	r.mu.Lock()
	r.seen[m.Key]++
	n := r.seen[m.Key]
	r.mu.Unlock()
	if n <= 2 {
		r.c.Violate(m.Key, fmt.Sprintf("[%s] %s: %s", path, m.Where, m.Detail), scenario)
	}
}

func (r *reporter) tolerate(t map[string]int) {
	r.mu.Lock()
	for k, v := range t {
		r.toler[k] += v
	}
	r.mu.Unlock()
}

func decodePrinted(lines []string, each func(raw []byte) error) error {
	for _, ln := range lines {
		if !strings.HasPrefix(ln, "\"{") {
			continue
		}
		s, err := strconv.Unquote(strings.TrimSpace(ln))
		if err != nil {
			return fmt.Errorf("cannot unquote TLC output line: %v: %.200s", err, ln)
		}
		if err := each([]byte(s)); err != nil {
			return err
		}
	}
	return nil
}

func runViewTLC(c *vlib.Check, module, cfg, scratch string, data map[string][]byte, origin string) []*c16lib.Case {
	res, err := vlib.RunTLC(vlib.TLCOpts{Module: module, Config: cfg, Workers: 1, Timeout: 25 * time.Minute,
		Scratch: vlib.Work(prop, scratch), Data: data, HeapGB: 6})
	if err != nil {
		vlib.Infra("tlc %s: %v", cfg, err)
	}
	if !res.OK {
		vlib.Infra("TLC %s/%s did not complete (a theorem of the specification failed on the model alone, or a supplied schema is outside the grammar): %s\n%s",
			module, cfg, res.Violation, tail(res.Output, 1500))
	}
	c.AddStates(res.Distinct, res.Generated)
	var cases []*c16lib.Case
	if err := decodePrinted(res.Printed, func(raw []byte) error {
		var cs c16lib.Case
		if err := json.Unmarshal(raw, &cs); err != nil {
			return err
		}
		cs.S.Normalize()
		cs.Origin = origin
		cases = append(cases, &cs)
		return nil
	}); err != nil {
		vlib.Infra("decode TLC output of %s: %v", cfg, err)
	}
	if len(cases) == 0 {
		vlib.Infra("vacuous: TLC %s exported no schema", cfg)
	}
	fmt.Fprintf(os.Stderr, "c16: TLC %s: %d schemas, %d states, %.1fs\n", cfg, len(cases), res.Distinct, res.WallS)
	return cases
}

func tail(s string, n int) string {
	if len(s) > n {
		return s[len(s)-n:]
	}
	return s
}

func feedData(schemas []*c16lib.Schema) map[string][]byte {
	var sb strings.Builder
	for _, s := range schemas {
		sb.Write(s.JSON())
		sb.WriteByte('\n')
	}
	return map[string][]byte{"c16_feed.ndjson": []byte(sb.String())}
}

func secretsOf(sch *ast.Schema) map[string]bool {
	out := map[string]bool{}
	for n, d := range sch.Types {
		if strings.HasPrefix(n, "__") || c16lib.BuiltinScalars[n] {
			continue
		}
		out[n] = true
		for _, f := range d.Fields {
			if strings.HasPrefix(f.Name, "__") {
				continue
			}
			out[f.Name] = true
			for _, a := range f.Arguments {
				out[a.Name] = true
			}
		}
		for _, v := range d.EnumValues {
			out[v.Name] = true
		}
	}
	for n, d := range sch.Directives {
		if c16lib.BuiltinDirectives[n] {
			continue
		}
		out[n] = true
		for _, a := range d.Arguments {
			out[a.Name] = true
		}
	}
	// identifiers that belong to the response format itself
	for _, k := range []string{"data", "errors", "message", "path", "extensions", "locations", "line", "column", "null", "true", "false"} {
		delete(out, k)
	}
	return out
}

// the schema with distinctive names served through Config.Schema in the gate runs
const gateSDL = `"zq9 secret schema description"
schema { query: Query }
"zq9 secret directive" directive @zq9dir(zq9why: String = "zq9dflt") repeatable on FIELD_DEFINITION
"zq9 secret interface" interface Zq9Base { zq9Id: ID }
interface Zq9Mid implements Zq9Base { zq9Id: ID zq9Mid(zq9Old: Int @deprecated(reason: "zq9 gone")): String }
"zq9 secret type"
type Zq9Widget implements Zq9Base & Zq9Mid {
  zq9Id: ID
  zq9Mid(zq9Old: Int @deprecated(reason: "zq9 gone too")): String
  "zq9 secret field" zq9Field(zq9Arg: [Zq9Color!] = [ZQ9_RED], zq9In: Zq9In = {zq9A: 7}): Zq9Stamp @deprecated(reason: "zq9 field gone")
}
union Zq9Any = Zq9Widget | Query
enum Zq9Color { ZQ9_RED ZQ9_OLD @deprecated(reason: "zq9 value gone") }
input Zq9In { zq9A: Int = 5 zq9B: [Zq9In!] zq9C: Zq9Color = ZQ9_RED @deprecated }
scalar Zq9Stamp @specifiedBy(url: "https://example.com/zq9stamp")
type Query { zq9Widget(zq9In: Zq9In): Zq9Widget zq9Any: Zq9Any }
`

func main() {
	c := vlib.NewCheck(prop, "exploration")
	thorough := vlib.Tier() == "thorough"
	seed := vlib.Seed()
	rep := &reporter{c: c, seen: map[string]int{}, toler: map[string]int{}, texts: map[string]int{}}
	_ = os.RemoveAll(vlib.Work(prop))

	// the text-class file of the probe is produced by c16lib.TextProbeSDL (every blank, tab and CR spelled out)
	textProbe := filepath.Join(vlib.Harness(), "probes", "c16", "d.graphqls")
	if os.Getenv("VERIF_C16_WRITE_TEXT_PROBE") != "" {
		if err := os.WriteFile(textProbe, []byte(c16lib.TextProbeSDL()), 0o644); err != nil {
			vlib.Infra("write %s: %v", textProbe, err)
		}
		fmt.Fprintln(os.Stderr, "c16: wrote", textProbe)
		os.Exit(0)
	}
	if b, err := os.ReadFile(textProbe); err != nil || string(b) != c16lib.TextProbeSDL() {
		vlib.Infra("probes/c16/d.graphqls is not what c16lib.TextProbeSDL produces (an editor normalised blanks / line ends?): regenerate it with VERIF_C16_WRITE_TEXT_PROBE=1 ./check C16 (%v)", err)
	}

	// ---- replay of one recorded scenario ----
	var replay *scenario
	if f := os.Getenv("VERIF_REPLAY"); f != "" {
		b, err := os.ReadFile(f)
		if err != nil {
			vlib.Infra("replay file: %v", err)
		}
		var w struct {
			Scenario scenario `json:"scenario"`
		}
		if err := json.Unmarshal(b, &w); err != nil || w.Scenario.Kind == "" {
			vlib.Infra("replay file %s has no C16 scenario: %v", f, err)
		}
		replay = &w.Scenario
	}

	// ---- generated servers from the current templates (both layouts; federation for _service) ----
	variants := []vlib.Variant{
		{Name: "v0"},
		{Name: "v1", FollowSchema: true, FuncSyntax: true, WorkerLimit: 2},
		{Name: "fed", Extra: "federation:\n  filename: graph/federation.go\n  package: graph\n  version: 2\n"},
	}
	if thorough {
		variants = append(variants, vlib.Variant{Name: "v2", WorkerLimit: 1, Opts: map[string]bool{"omit_slice_element_pointers": true, "resolvers_always_return_pointers": true}})
	}
	// the layouts above keep the schema files outside the executor's directory: the generator inlines them
	// (templates.rawQuote); e0 / e1 keep them inside it: the generator embeds them (//go:embed)
	embedded := []vlib.Variant{{Name: "e0"}}
	if thorough {
		embedded = append(embedded, vlib.Variant{Name: "e1", FollowSchema: true, WorkerLimit: 2})
	}
	type built struct {
		bins map[string]string
		err  error
	}
	bch := make(chan built, 1)
	go func() {
		var wg sync.WaitGroup
		var mu sync.Mutex
		ebins := map[string]string{}
		var eerr error
		for _, v := range embedded {
			wg.Add(1)
			go func(v vlib.Variant) {
				defer wg.Done()
				bin, err := vlib.C16BuildProbeEmbedded("c16", v)
				mu.Lock()
				defer mu.Unlock()
				if err != nil && eerr == nil {
					eerr = err
				}
				ebins[v.ID()] = bin
			}(v)
		}
		bins, err := vlib.BuildProbes("c16", variants)
		wg.Wait()
		if err == nil {
			err = eerr
		}
		if bins == nil {
			bins = map[string]string{}
		}
		for k, v := range ebins {
			bins[k] = v
		}
		variants = append(variants, embedded...)
		bch <- built{bins, err}
	}()

	// ---- the specification: TLC enumerates schemas / operations with what it prescribes ----
	var cases []*c16lib.Case
	var gates []*c16lib.GateCase
	var ownAST *ast.Schema
	var ownConc *c16lib.Conc
	ownAltText = map[string]string{}
	{
		var srcs []*ast.Source
		files, _ := filepath.Glob(filepath.Join(vlib.Harness(), "probes", "c16", "*.graphqls"))
		sort.Strings(files)
		for _, f := range files {
			b, err := os.ReadFile(f)
			if err != nil {
				vlib.Infra("%v", err)
			}
			srcs = append(srcs, &ast.Source{Name: filepath.Base(f), Input: string(b)})
		}
		var gerr error
		ownAST, gerr = gqlparser.LoadSchema(srcs...)
		if gerr != nil {
			vlib.Infra("probe schema does not load: %v", gerr)
		}
		// the same files with every carriage return removed: what a Go raw string literal keeps of them
		var stripped []*ast.Source
		for _, s := range srcs {
			stripped = append(stripped, &ast.Source{Name: s.Name, Input: strings.ReplaceAll(s.Input, "\r", "")})
		}
		if noCR, err := gqlparser.LoadSchema(stripped...); err == nil {
			at := map[string]string{}
			c16lib.TextPositions(ownAST, func(pos, where, v string) { at[pos+"|"+where] = v })
			c16lib.TextPositions(noCR, func(pos, where, v string) {
				if w, ok := at[pos+"|"+where]; ok && w != v {
					ownAltText[w] = v
				}
			})
		}
	}
	viewCfg, gateCfg := "MC_Introspect.cfg", "MC_IntrospectGate.cfg"
	nGen := 400
	if thorough {
		viewCfg, gateCfg = "MC_Introspect_big.cfg", "MC_IntrospectGate_big.cfg"
		nGen = 20000
	}
	if replay == nil {
		var wg sync.WaitGroup
		var mcCases, genCases []*c16lib.Case
		wg.Add(3)
		go func() {
			defer wg.Done()
			mcCases = runViewTLC(c, "MC_Introspect", viewCfg, "tlc-view", nil, "mc")
		}()
		go func() {
			defer wg.Done()
			// schemas drawn from the same grammar by the seeded generator + the probe's own schema
			g := &c16lib.Gen{R: rand.New(rand.NewSource(seed)), MaxTypes: 4}
			var feed []*c16lib.Schema
			ownAbs, oc := c16lib.Symbolise(c16lib.FromAST(ownAST))
			ownConc = oc
			feed = append(feed, ownAbs)
			for i := 0; i < nGen; i++ {
				feed = append(feed, g.Schema())
			}
			genCases = runViewTLC(c, "Feed_Introspect", "Feed_Introspect.cfg", "tlc-feed", feedData(feed), "gen")
			ownJSON := string(ownAbs.JSON())
			found := false
			for _, cs := range genCases {
				if string(cs.S.JSON()) == ownJSON {
					cs.Origin, cs.Own, found = "own", true, true
				}
			}
			if !found {
				vlib.Infra("the probe's own schema did not come back from TLC")
			}
		}()
		go func() {
			defer wg.Done()
			res, err := vlib.RunTLC(vlib.TLCOpts{Module: "MC_Introspect", Config: gateCfg, Workers: 1, Timeout: 20 * time.Minute,
				Scratch: vlib.Work(prop, "tlc-gate"), HeapGB: 4})
			if err != nil {
				vlib.Infra("tlc gate: %v", err)
			}
			if !res.OK {
				vlib.Infra("TLC gate model failed on the model alone: %s", res.Violation)
			}
			c.AddStates(res.Distinct, res.Generated)
			if err := decodePrinted(res.Printed, func(raw []byte) error {
				var g c16lib.GateCase
				if err := json.Unmarshal(raw, &g); err != nil {
					return err
				}
				gates = append(gates, &g)
				return nil
			}); err != nil {
				vlib.Infra("decode gate output: %v", err)
			}
			fmt.Fprintf(os.Stderr, "c16: TLC %s: %d operations, %d states, %.1fs\n", gateCfg, len(gates), res.Distinct, res.WallS)
		}()
		wg.Wait()
		cases = append(mcCases, genCases...)
		if len(gates) == 0 {
			vlib.Infra("vacuous: the gate model exported no operation")
		}
	} else {
		switch replay.Kind {
		case "view":
			if replay.Own {
				ownAbs, oc := c16lib.Symbolise(c16lib.FromAST(ownAST))
				ownConc = oc
				replay.S = ownAbs
			}
			cases = runViewTLC(c, "Feed_Introspect", "Feed_Introspect.cfg", "tlc-feed", feedData([]*c16lib.Schema{replay.S}), "replay")
			for _, cs := range cases {
				cs.Own = replay.Own
			}
		case "gate":
			gates = []*c16lib.GateCase{replay.Gate}
		default:
			vlib.Infra("unknown scenario kind %q", replay.Kind)
		}
	}

	b := <-bch
	if b.err != nil {
		vlib.Infra("build probes: %v", b.err)
	}
	perVariant := 2
	if thorough {
		perVariant = 3
	}
	var servers []*server
	for _, v := range variants {
		s := &server{variant: v.Name, fed: v.Name == "fed", embedded: strings.HasPrefix(v.Name, "e")}
		n := perVariant
		if s.fed {
			n = 1
		}
		for i := 0; i < n; i++ {
			p, err := vlib.StartProc(b.bins[v.ID()], nil)
			if err != nil {
				vlib.Infra("start probe %s: %v", v.Name, err)
			}
			s.procs = append(s.procs, p)
		}
		servers = append(servers, s)
	}
	defer func() {
		for _, s := range servers {
			for _, p := range s.procs {
				p.Close()
			}
		}
	}()

	// ---- conformance of the views ----
	viewConformance(c, rep, cases, servers, ownAST, ownConc, seed, thorough, replay)

	// ---- conformance of the gate ----
	gateConformance(c, rep, gates, servers, ownAST, seed, replay)

	// text classes: every position x class that occurred is a case class; the probe's own schema (the only one
	// whose text travels through the generator) must carry the classes a byte-wise lossy delivery would change
	if replay == nil {
		var missing []string
		for _, pos := range []string{"object-desc", "interface-desc", "union-desc", "enum-desc", "input_object-desc", "field-desc", "arg-desc",
			"inputfield-desc", "enumvalue-desc", "directive-desc", "arg-default", "inputfield-default", "dirarg-default",
			"field-reason", "arg-reason", "inputfield-reason", "enumvalue-reason", "dirarg-reason"} {
			if rep.texts["own/"+pos+":space-at-line-end"]+rep.texts["own/"+pos+":tab-at-line-end"] == 0 {
				missing = append(missing, pos+":blank-at-line-end")
			}
		}
		for _, cl := range []string{"tab-at-line-end", "blank-only-line", "leading-space", "leading-tab", "backtick", "triple-quote", "non-bmp", "long-line", "space-at-text-end", "backslash"} {
			n := 0
			for k, v := range rep.texts {
				if strings.HasPrefix(k, "own/") && strings.HasSuffix(k, ":"+cl) {
					n += v
				}
			}
			if n == 0 {
				missing = append(missing, cl)
			}
		}
		if len(ownAltText) == 0 {
			missing = append(missing, "lone-CR line end")
		}
		if len(missing) > 0 {
			vlib.Infra("vacuous: the probe's own schema lacks the text classes %v", missing)
		}
	}
	tc := map[string]any{}
	for k, v := range rep.texts {
		c.Class("text:" + k)
		tc[k] = v
	}
	c.Set("text_classes", tc)
	tol := map[string]any{}
	for k, v := range rep.toler {
		tol[k] = v
	}
	c.Set("tolerated_deviations", tol)
	counts := map[string]any{}
	for k, v := range rep.seen {
		counts[k] = v
	}
	c.Set("mismatches_by_key", counts)
	c.Set("rule", "schemas: every schema of the bounded space of spec/MC_Introspect.tla (union of exhaustive feature-group slices, incl. SliceText = 11 text classes x 22 text positions) plus seeded draws from the grammar IsSchema validated by TLC plus the probe's own schema; each is compared with TLC's View(S,TRUE) and View(S,FALSE) through the runtime introspection package and through generated servers (standard introspection query with includeDeprecated true / omitted / variable, and __type(name:) per type); texts (descriptions, deprecation reasons, string defaults) are spelled quoted or as block strings (indented, column 0, one line, CRLF) and compared byte-exactly. The probe's own schema (incl. d.graphqls: blanks / tabs before line ends inside block strings at every text position, indentation, blank-only lines, backticks, escaped triple quotes, non-BMP, 6000-character line, CRLF and lone-CR line ends) is the text that travels through the generator: inlined as a raw string literal (v0, v1: schema files outside the executor directory) and embedded (e0: inside it); expected = the same files loaded by gqlparser. Operations: every hiding operation of the gate machine x {nothing registered, extension alone}, and every registration order of at most 3 (thorough 4) writers of DisableIntrospection (extension / user context mutator set|clear / AroundOperations guard set|clear|pass) x 21 hiding shapes, each run on a fresh server through executor.Executor and through handler.Server + transport.POST, on {own schema, overridden schema, federated server}; guards decide per request from a request header. A class is a distinct schema feature class (element kind x own deprecation x enclosing deprecation x description, type wrapping x kind, default-value kind x position, relation shape, directive shape), a text position x text class, or a distinct hiding shape x registration order")
	c.Set("exhaustive", false)
	c.Set("variants", len(variants))
	c.Assume("gqlparser (validator.LoadSchema, parser) loads SDL faithfully; the check verifies on every schema that the loaded AST abstracts back to the schema that was rendered")
	c.Assume("TLC evaluates View/Rebuild of spec/Introspect.tla correctly")
	c.Assume("gqlparser's reading of a schema FILE (block-string value, line terminators) is the reference for what the schema says; the generated servers' answers are compared with it byte for byte")
	c.Assume("writes to DisableIntrospection after next(ctx) returned, and by field / response interceptors, are not modelled")
	c.Assume("null vs [] for lists that do not apply to a kind, and null vs \"No longer supported\" for @deprecated without reason, are not distinguished (counted in tolerated_deviations)")
	c.Assume("the order of types, fields, arguments, values and directives in the answer is left free")
	fmt.Fprintln(os.Stderr, "c16: done")
	c.Finish()
}

// ownAltText: text of the probe's own schema -> the text the element has when the source files are read
// without their carriage returns (non-empty only for elements whose value depends on a lone CR)
var ownAltText map[string]string

const keyInlinedCR = "inlined-schema-source-loses-lone-carriage-return"

type scenario struct {
	Kind     string            `json:"kind"` // view | gate
	S        *c16lib.Schema    `json:"s,omitempty"`
	Own      bool              `json:"own,omitempty"`
	ConcSeed int64             `json:"conc_seed,omitempty"`
	SDL      string            `json:"sdl,omitempty"`
	Query    string            `json:"query,omitempty"`
	Vars     map[string]any    `json:"vars,omitempty"`
	Server   string            `json:"server,omitempty"`
	Gate     *c16lib.GateCase  `json:"gate,omitempty"`
	HTTP     bool              `json:"http,omitempty"`
	Note     map[string]string `json:"note,omitempty"`
}

func call(p *vlib.Proc, cmd ur.C16Cmd) (*ur.C16Res, error) {
	cmd.Cmd = "c16"
	if err := p.Send(cmd); err != nil {
		return nil, err
	}
	var res ur.C16Res
	if err := p.Recv(&res, 120*time.Second); err != nil {
		return nil, fmt.Errorf("%v; stderr: %s", err, tail(p.Stderr, 800))
	}
	if res.Err != "" {
		return nil, fmt.Errorf("probe: %s", res.Err)
	}
	return &res, nil
}

func viewConformance(c *vlib.Check, rep *reporter, cases []*c16lib.Case, servers []*server, ownAST *ast.Schema, ownConc *c16lib.Conc, seed int64, thorough bool, replay *scenario) {
	if len(cases) == 0 {
		return
	}
	type job struct {
		idx int
		cs  *c16lib.Case
	}
	var plain []*server
	for _, s := range servers {
		if !s.fed {
			plain = append(plain, s)
		}
	}
	nw := len(plain[0].procs)
	jobs := make([]chan job, nw)
	var wg sync.WaitGroup
	var evals, ownSeen, depArgSeen int64
	var mu sync.Mutex
	for w := 0; w < nw; w++ {
		jobs[w] = make(chan job, 64)
		wg.Add(1)
		go func(w int) {
			defer wg.Done()
			for j := range jobs[w] {
				n := oneView(c, rep, j.idx, j.cs, plain, w, ownAST, ownConc, seed, thorough, replay)
				mu.Lock()
				evals += n
				if j.cs.Own {
					ownSeen++
				}
				mu.Unlock()
			}
		}(w)
	}
	for i, cs := range cases {
		for _, f := range cs.S.Features() {
			c.Class(f)
			if strings.HasPrefix(f, "arg:own=reason|field=no") {
				depArgSeen++
			}
		}
		jobs[i%nw] <- job{i, cs}
	}
	for w := range jobs {
		close(jobs[w])
	}
	wg.Wait()
	c.AddEvals(evals)
	c.Set("schemas", len(cases))
	if replay == nil && (ownSeen == 0 || depArgSeen == 0) {
		vlib.Infra("vacuous: own schema served %d times, schemas with an argument deprecated on its own %d", ownSeen, depArgSeen)
	}
	for i := 0; i < len(cases) && i < 3; i++ {
		cs := cases[(i*7919)%len(cases)]
		conc := &c16lib.Conc{Seed: seed}
		c.Sample(map[string]any{"origin": cs.Origin, "sdl": trunc(conc.SDL(&cs.S), 600)})
	}
}

func trunc(s string, n int) string {
	if len(s) > n {
		return s[:n] + "..."
	}
	return s
}

// oneView runs one schema through the runtime package and the generated servers; returns the number of comparisons.
func oneView(c *vlib.Check, rep *reporter, idx int, cs *c16lib.Case, plain []*server, w int, ownAST *ast.Schema, ownConc *c16lib.Conc, seed int64, thorough bool, replay *scenario) int64 {
	var n int64
	concSeed := seed*1000003 + int64(idx)
	if replay != nil && replay.ConcSeed != 0 {
		concSeed = replay.ConcSeed
	}
	conc := &c16lib.Conc{Seed: concSeed}
	sdl := ""
	var sch *ast.Schema
	if cs.Own {
		conc, sch = ownConc, ownAST
	} else {
		sdl = conc.SDL(&cs.S)
		var err error
		sch, err = gqlparser.LoadSchema(&ast.Source{Name: "c16.graphqls", Input: sdl})
		if err != nil {
			vlib.Infra("rendered schema does not load (renderer or grammar problem): %v\n%s", err, sdl)
		}
	}
	if cs.Own {
		rep.noteTexts("own/", sch)
	} else {
		rep.noteTexts("", sch)
	}
	// the independent observation point: what gqlparser loaded is the schema that was rendered
	if d := c16lib.Diff(c16lib.FromAST(sch), conc.Concretise(&cs.S)); d != "" {
		vlib.Infra("gqlparser's AST differs from the rendered abstract schema (%s): %s\n%s", cs.Origin, d, sdl)
	}
	scen := func(server, query string, vars map[string]any) scenario {
		s := cs.S
		return scenario{Kind: "view", S: &s, Own: cs.Own, ConcSeed: concSeed, SDL: sdl, Server: server, Query: trunc(query, 200), Vars: vars}
	}
	cmpView := func(path string, inc, argF, inpF bool, obs *c16lib.OView, sc scenario) {
		exp := &cs.All
		if !inc {
			exp = &cs.Cur
		}
		cm := &c16lib.Cmp{S: &cs.S, C: conc, Inc: inc, ArgFilter: argF, InpFilter: inpF}
		if cs.Own && strings.HasPrefix(path, "generated ") && !strings.HasPrefix(path, "generated e") { // inlined delivery only
			cm.AltText, cm.AltKey = ownAltText, keyInlinedCR
		}
		cm.View(exp, obs)
		n++
		rep.tolerate(cm.Tolerated)
		for _, m := range cm.Out {
			rep.report(m, path, sc)
		}
	}
	cmpTypes := func(path string, inc, argF, inpF bool, get func(name string) (*c16lib.OType, bool), sc scenario) {
		exp := &cs.All
		if !inc {
			exp = &cs.Cur
		}
		cm := &c16lib.Cmp{S: &cs.S, C: conc, Inc: inc, ArgFilter: argF, InpFilter: inpF}
		if cs.Own && strings.HasPrefix(path, "generated ") && !strings.HasPrefix(path, "generated e") { // inlined delivery only
			cm.AltText, cm.AltKey = ownAltText, keyInlinedCR
		}
		for _, et := range exp.Types {
			ot, ok := get(et.Name)
			if !ok || ot == nil {
				cm.Out = append(cm.Out, c16lib.Mismatch{Key: "__type-null-for-existing-type", Where: et.Name, Detail: "__type(name:) returned null"})
				continue
			}
			if ot.Name != et.Name {
				cm.Out = append(cm.Out, c16lib.Mismatch{Key: "__type-wrong-type", Where: et.Name, Detail: "returned " + ot.Name})
				continue
			}
			cm.Type(et, *ot)
		}
		n++
		rep.tolerate(cm.Tolerated)
		for _, m := range cm.Out {
			rep.report(m, path, sc)
		}
	}

	// (a) the runtime package through its Go API
	for _, inc := range []bool{true, false} {
		obs, err := c16lib.ObserveRuntime(sch, inc)
		sc := scen("runtime", "", nil)
		if err != nil {
			rep.report(c16lib.Mismatch{Key: "introspection-panic", Where: "WrapSchema", Detail: err.Error()}, "runtime", sc)
			continue
		}
		cmpView(fmt.Sprintf("runtime inc=%v", inc), inc, obs.HasArgFilter, obs.HasInpFilter, obs, sc)
		argF, inpF := false, false
		probe := func(name string) (*c16lib.OType, bool) {
			ot, flt, err := c16lib.ObserveRuntimeType(sch, name, inc)
			if err != nil {
				rep.report(c16lib.Mismatch{Key: "introspection-panic", Where: name, Detail: err.Error()}, "runtime", sc)
				return nil, false
			}
			argF, inpF = argF || flt.HasArgFilter, inpF || flt.HasInpFilter
			return ot, ot != nil
		}
		for _, t := range cs.S.Types { // learn whether this API filters, before comparing
			probe(t.Name)
		}
		cmpTypes(fmt.Sprintf("runtime WrapTypeFromDef inc=%v", inc), inc, argF, inpF, probe, sc)
	}

	// (b) generated servers
	names := []string{}
	for _, t := range cs.S.Types {
		names = append(names, t.Name)
	}
	type q struct {
		label string
		query string
		vars  map[string]any
		inc   bool
		types bool
	}
	qs := []q{
		{"includeDeprecated:true", c16lib.SchemaQuery("true"), nil, true, false},
		{"includeDeprecated omitted", c16lib.SchemaQuery(""), nil, false, false},
		{"__type includeDeprecated:true", c16lib.TypesQuery(names, "true"), nil, true, true},
	}
	if thorough || idx%3 == 0 {
		incv := idx%2 == 0
		qs = append(qs, q{fmt.Sprintf("includeDeprecated:$inc=%v", incv), c16lib.SchemaQuery("$inc"), map[string]any{"inc": incv}, incv, false},
			q{"__type includeDeprecated:false", c16lib.TypesQuery(names, "false"), nil, false, true})
	}
	for _, srv := range plain {
		if srv.embedded && !cs.Own && idx%8 != 0 && replay == nil {
			continue
		}
		cmd := ur.C16Cmd{ID: strconv.Itoa(idx), SDL: sdl}
		for _, x := range qs {
			cmd.Runs = append(cmd.Runs, ur.C16Run{Query: x.query, Vars: x.vars, Ext: true})
		}
		res, err := call(srv.procs[w], cmd)
		if err != nil {
			vlib.Infra("probe %s on schema %d (%s): %v\n%s", srv.variant, idx, cs.Origin, err, sdl)
		}
		for i, x := range qs {
			path := "generated " + srv.variant + " " + x.label
			sc := scen(srv.variant, x.query, x.vars)
			o := res.Outs[i]
			if o.Err != "" {
				vlib.Infra("probe %s: %s", srv.variant, o.Err)
			}
			r, err := c16lib.DecodeResponse(o.Raw)
			if err != nil {
				rep.report(c16lib.Mismatch{Key: "introspection-response-not-json", Where: x.label, Detail: err.Error() + ": " + trunc(o.Raw, 300)}, path, sc)
				continue
			}
			if len(o.GateErrs) > 0 || len(r.Errors) > 0 {
				rep.report(c16lib.Mismatch{Key: "introspection-query-error", Where: x.label, Detail: fmt.Sprintf("the standard introspection query failed: %v %v", o.GateErrs, r.Errors)}, path, sc)
				continue
			}
			if x.types {
				dm, _ := r.Data.(map[string]any)
				if dm == nil {
					rep.report(c16lib.Mismatch{Key: "introspection-no-data", Where: x.label, Detail: trunc(o.Raw, 300)}, path, sc)
					continue
				}
				if v, ok := dm["missing"]; !ok || v != nil {
					rep.report(c16lib.Mismatch{Key: "__type-unknown-name-not-null", Where: x.label, Detail: fmt.Sprint(v)}, path, sc)
				}
				cmpTypes(path, x.inc, true, true, func(name string) (*c16lib.OType, bool) {
					for i, nm := range names {
						if nm == name {
							v := dm["t"+strconv.Itoa(i)]
							if v == nil {
								return nil, false
							}
							ot := c16lib.JType(v)
							return &ot, true
						}
					}
					return nil, false
				}, sc)
				continue
			}
			obs, err := c16lib.ObserveJSON(r.Data)
			if err != nil {
				rep.report(c16lib.Mismatch{Key: "introspection-no-data", Where: x.label, Detail: err.Error() + ": " + trunc(o.Raw, 300)}, path, sc)
				continue
			}
			cmpView(path, x.inc, true, true, obs, sc)
		}
	}
	return n
}

func gateConformance(c *vlib.Check, rep *reporter, gates []*c16lib.GateCase, servers []*server, ownAST *ast.Schema, seed int64, replay *scenario) {
	if len(gates) == 0 {
		return
	}
	ownSecrets := secretsOf(ownAST)
	gateSchema, err := gqlparser.LoadSchema(&ast.Source{Name: "gate.graphqls", Input: gateSDL})
	if err != nil {
		vlib.Infra("gate schema: %v", err)
	}
	overrideSecrets := secretsOf(gateSchema)
	overrideSubstr := []string{"zq9", "Zq9", "ZQ9"}
	type target struct {
		srv     *server
		proc    *vlib.Proc
		sdl     string
		known   string
		secrets map[string]bool
		substr  []string
		label   string
	}
	var targets []target
	for _, s := range servers {
		if s.fed {
			targets = append(targets, target{s, s.procs[0], "", "Zq7Widget", ownSecrets, []string{"zq7", "Zq7", "ZQ7"}, "fed/own"})
			continue
		}
		targets = append(targets, target{s, s.procs[0], "", "Zq7Widget", ownSecrets, []string{"zq7", "Zq7", "ZQ7"}, s.variant + "/own"})
		if len(s.procs) > 1 {
			targets = append(targets, target{s, s.procs[1], gateSDL, "Zq9Widget", overrideSecrets, overrideSubstr, s.variant + "/override"})
		}
	}
	var wg sync.WaitGroup
	var mu sync.Mutex
	var evals int64
	counts := map[string]int{}
	for ti, t := range targets {
		wg.Add(1)
		go func(ti int, t target) {
			defer wg.Done()
			var batch []*c16lib.GateCase
			var qs []string
			var vs []map[string]any
			var https []bool
			flush := func() {
				if len(batch) == 0 {
					return
				}
				cmd := ur.C16Cmd{ID: "gate", SDL: t.sdl}
				for i := range batch {
					run := ur.C16Run{Query: qs[i], Vars: vs[i], Ext: batch[i].Op.Ext == "t", HTTP: https[i], HasChain: true, Chain: []ur.C16Item{}}
					for _, it := range batch[i].Op.Chain {
						run.Chain = append(run.Chain, ur.C16Item{K: it.K, W: it.W})
					}
					cmd.Runs = append(cmd.Runs, run)
				}
				res, err := call(t.proc, cmd)
				if err != nil {
					vlib.Infra("gate on %s: %v", t.label, err)
				}
				for i, g := range batch {
					o := res.Outs[i]
					label := t.label + "/executor"
					if https[i] {
						label = t.label + "/handler+POST"
					}
					sc := scenario{Kind: "gate", Gate: g, Server: t.label, Query: qs[i], Vars: vs[i], HTTP: https[i]}
					if o.Err != "" {
						vlib.Infra("gate probe %s: %s", label, o.Err)
					}
					r, err := c16lib.DecodeResponse(o.Raw)
					if err != nil {
						rep.report(c16lib.Mismatch{Key: "gate-response-not-json", Where: g.Op.Class(), Detail: trunc(o.Raw, 300)}, label, sc)
						continue
					}
					for _, m := range c16lib.CheckGate(g, r, o.GateErrs, qs[i], vs[i], t.secrets, t.substr) {
						rep.report(m, label, sc)
					}
				}
				mu.Lock()
				evals += int64(len(batch))
				mu.Unlock()
				batch, qs, vs, https = nil, nil, nil, nil
			}
			for gi, g := range gates {
				if replay != nil && replay.Server != "" && replay.Server != t.label {
					continue
				}
				if g.Op.Has("_service") && !t.srv.fed {
					continue
				}
				if g.Op.Has("user") && t.sdl != "" {
					continue
				}
				query, vars := g.Op.Render(t.known, int(seed)+gi+ti)
				// the registration orders of rounds 1-2 (nothing / the extension alone) alternate between the
				// executor and handler.Server + transport.POST; every other order runs through both
				legacy := len(g.Op.Chain) == 0 || (len(g.Op.Chain) == 1 && g.Op.Chain[0].K == "intro")
				modes := []bool{false, true}
				if legacy && replay == nil {
					modes = []bool{(gi+ti+int(seed))%2 == 0}
				}
				for _, h := range modes {
					batch, qs, vs, https = append(batch, g), append(qs, query), append(vs, vars), append(https, h)
					mu.Lock()
					counts[t.label]++
					if g.Op.Has("_service") {
						counts["_service"]++
					}
					if g.Disabled() {
						counts["disabled"]++
					}
					if h {
						counts["handler+POST"]++
					} else {
						counts["executor"]++
					}
					if !legacy {
						counts["registration-orders"]++
						if g.Disabled() && g.Op.Ext == "t" {
							counts["disabled-although-extension-installed"]++
						}
						if !g.Disabled() && g.Op.Ext == "f" {
							counts["enabled-without-extension"]++
						}
					}
					mu.Unlock()
				}
				if len(batch) >= 64 {
					flush()
				}
			}
			flush()
		}(ti, t)
	}
	for _, g := range gates {
		c.Class("gate:" + g.Op.Class())
	}
	wg.Wait()
	c.AddEvals(evals)
	cm := map[string]any{}
	for k, v := range counts {
		cm[k] = v
	}
	c.Set("gate_runs", cm)
	c.Set("gate_operations", len(gates))
	chains := map[string]bool{}
	for _, g := range gates {
		chains[g.Op.ChainSig()] = true
	}
	c.Set("gate_registration_orders", len(chains))
	if replay == nil && (counts["_service"] == 0 || counts["disabled"] == 0 || counts["disabled-although-extension-installed"] == 0 ||
		counts["enabled-without-extension"] == 0 || counts["handler+POST"] == 0 || counts["executor"] == 0) {
		vlib.Infra("vacuous gate run: %v", counts)
	}
	g := gates[(int(seed)*31)%len(gates)]
	q, v := g.Op.Render("Zq7Widget", int(seed))
	c.Sample(map[string]any{"gate_op": g.Op, "expect": g.Res, "query": q, "vars": v})
	for i := range gates { // one case where a guard registered before the extension disables introspection for this request
		g := gates[(i+int(seed)*131)%len(gates)]
		if len(g.Op.Chain) >= 2 && g.Op.Chain[0].K == "mw" && g.Op.Chain[0].W == "t" && g.Op.Ext == "t" && g.Disabled() {
			q, v := g.Op.Render("Zq7Widget", int(seed))
			c.Sample(map[string]any{"gate_op": g.Op, "registration_order": g.Op.ChainSig(), "disable_introspection_at_execution": g.Dis, "expect": g.Res, "query": q, "vars": v})
			break
		}
	}
}
