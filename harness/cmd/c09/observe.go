package main

import (
	"fmt"
	"net/http"
	"net/http/httptest"
	"strings"

	"github.com/99designs/gqlgen/graphql/handler"
	"github.com/99designs/gqlgen/graphql/handler/transport"
)

// observations records behaviour the C09 statement does not decide (no
// verdict): how q=0 in Accept is treated, and how an oversized multipart
// request is answered.  The results go into the evidence file and the notes.
func observations() []map[string]any {
	out := []map[string]any{}
	srv := handler.New(executableSchema())
	srv.AddTransport(transport.POST{})
	srv.AddTransport(transport.MultipartForm{MaxUploadSize: 64})
	ts := httptest.NewServer(srv)
	defer ts.Close()
	do := func(name, ct, accept, body string) {
		req, _ := http.NewRequest("POST", ts.URL+"/graphql", strings.NewReader(body))
		req.Header.Set("Content-Type", ct)
		if accept != "" {
			req.Header.Set("Accept", accept)
		}
		resp, err := client.Do(req)
		if err != nil {
			out = append(out, map[string]any{"name": name, "error": err.Error()})
			return
		}
		defer resp.Body.Close()
		b := make([]byte, 300)
		n, _ := resp.Body.Read(b)
		out = append(out, map[string]any{"name": name, "accept": accept, "status": resp.StatusCode,
			"content_type": resp.Header.Get("Content-Type"), "body": string(b[:n])})
	}
	do("accept-q0", "application/json", "application/json;q=0, application/graphql-response+json", `{"query":"{ q1 }"}`)
	do("accept-q-order", "application/json", "application/json;q=0.1, application/graphql-response+json;q=1", `{"query":"{ q1 }"}`)
	big := multipartBody("vbobs", fmt.Sprintf(`{"query":"{ q1 }","variables":{"pad":"%s"}}`, strings.Repeat("x", 200)), true, "operations")
	do("multipart-too-large", "multipart/form-data; boundary=vbobs", "", big)
	return out
}
