package main

import (
	"bytes"
	"crypto/sha256"
	"encoding/hex"
	"encoding/json"
	"fmt"
	"math/rand"
	"mime"
	"mime/multipart"
	"net/textproto"
	"net/url"
	"strings"
)

// Op / Line mirror the export record of spec/Http.tla (action constraint Export).
type Op struct {
	K string `json:"k"`
	N string `json:"n"`
}

type Rule struct {
	Lo int    `json:"lo"`
	Hi int    `json:"hi"`
	Ct string `json:"ct"`
}

type Line struct {
	Sv  string   `json:"sv"`
	M   string   `json:"m"`
	Ct  string   `json:"ct"`
	Acc []string `json:"acc"`
	Up  bool     `json:"up"`
	Val string   `json:"val"`
	Doc []Op     `json:"doc"`
	Opn string   `json:"opn"`
	Src string   `json:"src"`
	// where the document travels ("url", "body", "both"), the decode source of
	// the selected transport and the document that transport gets to see
	Carry string `json:"carry"`
	Esrc  string `json:"esrc"`
	Edoc  []Op   `json:"edoc"`

	Tk     string   `json:"tk"`
	Ti     int      `json:"ti"`
	Cls    string   `json:"cls"`
	Rules  []Rule   `json:"rules"`
	Bodies []string `json:"bodies"`
	Exec   []int    `json:"exec"`
	Ist    int      `json:"ist"`
	Ict    string   `json:"ict"`
	Ib     string   `json:"ib"`
	Dev    string   `json:"dev"`
}

// Concrete is one concrete HTTP request (a representative of the class a Line describes).
type Concrete struct {
	Method  string      `json:"method"`
	Query   string      `json:"raw_query"`
	Headers [][2]string `json:"headers"`
	Body    string      `json:"body"`
	Text    string      `json:"document"`
	Note    string      `json:"note"`
}

func pick[T any](r *rand.Rand, xs ...T) T { return xs[r.Intn(len(xs))] }

// ---------------------------------------------------------------- header classes

var ctSpellings = map[string][]string{
	"json":      {"application/json", "application/json; charset=utf-8", "Application/JSON", "application/json;charset=UTF-8"},
	"graphql":   {"application/graphql", "application/graphql; charset=utf-8", "APPLICATION/GraphQL"},
	"form":      {"application/x-www-form-urlencoded", "application/x-www-form-urlencoded; charset=UTF-8", "Application/X-WWW-Form-Urlencoded"},
	"multipart": {"multipart/form-data; boundary=%s", "Multipart/Form-Data; boundary=%s", "multipart/form-data; charset=utf-8; boundary=%s"},
	"other":     {"text/plain", "application/xml", "text/json", "application/octet-stream", "application/jsonl"},
	"bad":       {"application/", "/json", ";", "application/json; =x", "application/json/"},
}

var ctMedia = map[string]string{
	"json": "application/json", "graphql": "application/graphql",
	"form": "application/x-www-form-urlencoded", "multipart": "multipart/form-data",
}

var accSpellings = map[string][]string{
	"json":    {"application/json", "Application/JSON", "application/json; charset=utf-8", "application/json;q=0.9"},
	"gqlresp": {"application/graphql-response+json", "application/graphql-response+json; charset=utf-8", "APPLICATION/GRAPHQL-RESPONSE+JSON", "application/graphql-response+json;q=0.8"},
	"any":     {"*/*", "*/*;q=0.1"},
	"appany":  {"application/*", "application/*;q=0.5", "Application/*"},
	"other":   {"text/html", "image/png", "text/plain;q=0.9", "application/xml", "application/jsonx"},
	"bad":     {"@@@", "/", "=;", "application/"},
	"sse":     {"text/event-stream", "text/event-stream;q=1"},
	"mixed":   {"multipart/mixed", "multipart/mixed;deferSpec=20220824"},
}

var accMedia = map[string]string{
	"json": "application/json", "gqlresp": "application/graphql-response+json", "any": "*/*",
	"appany": "application/*", "sse": "text/event-stream", "mixed": "multipart/mixed",
}

// selfCheckSpellings makes sure every spelling belongs to the class it is
// listed under (judged by the standard library's media type parser).
func selfCheckSpellings() error {
	for cls, sps := range ctSpellings {
		for _, sp := range sps {
			if strings.Contains(sp, "%s") {
				sp = fmt.Sprintf(sp, "b0undary")
			}
			mt, _, err := mime.ParseMediaType(sp)
			switch cls {
			case "bad":
				if err == nil {
					return fmt.Errorf("content-type spelling %q of class bad parses as %q", sp, mt)
				}
			case "other":
				if err != nil {
					return fmt.Errorf("content-type spelling %q of class other does not parse: %v", sp, err)
				}
				for _, m := range ctMedia {
					if mt == m {
						return fmt.Errorf("content-type spelling %q of class other is %q", sp, m)
					}
				}
			default:
				if err != nil || mt != ctMedia[cls] {
					return fmt.Errorf("content-type spelling %q of class %s parses as %q, %v", sp, cls, mt, err)
				}
			}
		}
	}
	for tok, sps := range accSpellings {
		for _, sp := range sps {
			mt, _, err := mime.ParseMediaType(sp)
			switch tok {
			case "bad":
				if err == nil {
					return fmt.Errorf("accept spelling %q of token bad parses as %q", sp, mt)
				}
			case "other":
				if err != nil {
					return fmt.Errorf("accept spelling %q of token other does not parse", sp)
				}
				for _, m := range accMedia {
					if mt == m {
						return fmt.Errorf("accept spelling %q of token other is %q", sp, m)
					}
				}
			default:
				if err != nil || mt != accMedia[tok] {
					return fmt.Errorf("accept spelling %q of token %s parses as %q, %v", sp, tok, mt, err)
				}
			}
			if strings.Contains(sp, ",") {
				return fmt.Errorf("accept spelling %q contains a comma", sp)
			}
		}
	}
	return nil
}

// ---------------------------------------------------------------- documents

func fieldOf(kind string, pos int) string { return fmt.Sprintf("%c%d", kind[0], pos) }

// expectedLog renders the resolver log the prescription `exec` stands for.
func expectedLog(l *Line) []string {
	out := []string{}
	for _, i := range l.Exec {
		o := l.Edoc[i-1]
		out = append(out, o.K+":"+o.N+":"+fieldOf(o.K, i))
	}
	return out
}

type params struct {
	query   string
	opn     string  // "" = none
	vars    *string // raw JSON text, nil = not sent
	ext     *string
	note    string
	noQuery bool // APQ: hash only
}

func renderOp(o Op, pos int, withVar bool, field string, r *rand.Rand) string {
	var sb strings.Builder
	vdecl := ""
	arg := ""
	if withVar {
		vdecl = "($v: Int!)"
		arg = "(id: $v)"
	}
	if o.N == "" && o.K == "query" && !withVar && r.Intn(2) == 0 {
		// shorthand
		fmt.Fprintf(&sb, "{ %s }", field)
		return sb.String()
	}
	sb.WriteString(o.K)
	if o.N != "" {
		sb.WriteString(" " + o.N)
	}
	sb.WriteString(vdecl)
	fmt.Fprintf(&sb, " { %s%s }", field, arg)
	return sb.String()
}

// renderDoc renders the document part of a request: the text and the variables.
func renderDoc(l *Line, r *rand.Rand) params {
	p := params{opn: l.Opn}
	switch l.Val {
	case "parse":
		p.query = pick(r, "{ q1", "query A { q1 ", "}{", "query ( { q1 }", "mutation { m1 ", "{ q1 } }")
		p.note = "parse error"
		return p
	case "noop":
		p.query = pick(r, "fragment F on Query { q1 }", "", "fragment F on Mutation { m1 }")
		p.note = "no operation"
		return p
	case "undecEnv", "undecVars":
		p.query = "{ q1 }"
		return p
	}
	ops := make([]string, len(l.Doc))
	bad := -1
	variant := ""
	if l.Val == "invalid" {
		variant = "unknownField"
		if len(l.Doc) >= 2 {
			variant = pick(r, "unknownField", "unknownField", "dupName", "loneAnon")
		}
		bad = r.Intn(len(l.Doc))
		p.note = fmt.Sprintf("validation error: %s at operation %d", variant, bad+1)
	}
	for i, o := range l.Doc {
		field := fieldOf(o.K, i+1)
		oo := o
		if i == bad {
			switch variant {
			case "unknownField":
				field = "zz"
			case "dupName":
				oo.N = l.Doc[(i+1)%len(l.Doc)].N
			case "loneAnon":
				oo.N = ""
			}
		}
		ops[i] = renderOp(oo, i+1, l.Val == "varerr", field, r)
	}
	p.query = strings.Join(ops, pick(r, " ", "\n", "\n\n"))
	if l.Val == "varerr" {
		switch r.Intn(3) {
		case 0:
			p.note = "required variable not supplied"
		case 1:
			s := `{"v":"notanint"}`
			p.vars = &s
			p.note = "variable of the wrong type"
		case 2:
			s := `{"v":null}`
			p.vars = &s
			p.note = "null for a non-null variable"
		}
	}
	return p
}

func hashOf(q string) string {
	b := sha256.Sum256([]byte(q))
	return hex.EncodeToString(b[:])
}

func jstr(s string) string { b, _ := json.Marshal(s); return string(b) }

// jsonBody renders RawParams as a JSON object with some spelling freedom.
func jsonBody(p params, r *rand.Rand) string {
	var kv []string
	if !p.noQuery {
		kv = append(kv, `"query":`+jstr(p.query))
	}
	if p.opn != "" {
		kv = append(kv, `"operationName":`+jstr(p.opn))
	} else if r.Intn(3) == 0 {
		kv = append(kv, `"operationName":`+pick(r, `null`, `""`))
	}
	if p.vars != nil {
		kv = append(kv, `"variables":`+*p.vars)
	} else if r.Intn(4) == 0 {
		kv = append(kv, `"variables":`+pick(r, `null`, `{}`))
	}
	if p.ext != nil {
		kv = append(kv, `"extensions":`+*p.ext)
	}
	r.Shuffle(len(kv), func(i, j int) { kv[i], kv[j] = kv[j], kv[i] })
	return "{" + strings.Join(kv, pick(r, ",", ", ")) + "}"
}

func urlParams(p params, r *rand.Rand) string {
	v := url.Values{}
	if !p.noQuery {
		v.Set("query", p.query)
	}
	if p.opn != "" {
		v.Set("operationName", p.opn)
	} else if r.Intn(3) == 0 {
		v.Set("operationName", "")
	}
	if p.vars != nil {
		v.Set("variables", *p.vars)
	}
	if p.ext != nil {
		v.Set("extensions", *p.ext)
	}
	return v.Encode()
}

func multipartBody(boundary, operations string, withMap bool, firstName string) string {
	var buf bytes.Buffer
	w := multipart.NewWriter(&buf)
	_ = w.SetBoundary(boundary)
	part := func(name, content string) {
		h := textproto.MIMEHeader{}
		h.Set("Content-Disposition", fmt.Sprintf(`form-data; name="%s"`, name))
		pw, _ := w.CreatePart(h)
		_, _ = pw.Write([]byte(content))
	}
	part(firstName, operations)
	if withMap {
		part("map", "{}")
	}
	_ = w.Close()
	return buf.String()
}

// concretise turns the request class of a TLC line into one concrete request.
// forcedCT >= 0 selects a spelling of the Content-Type class by index
// (round-robin over the class "other", so that every media type literal of
// the tree under test is tried in every (method, carry) cell).
func concretise(l *Line, r *rand.Rand, id string, forcedCT int) (Concrete, params) {
	c := Concrete{Method: l.M}
	if l.M == "PUT" {
		c.Method = pick(r, "PUT", "DELETE", "PATCH")
	}
	p := renderDoc(l, r)
	c.Text = p.query
	c.Note = p.note
	if l.Src == "apq" {
		ext := fmt.Sprintf(`{"persistedQuery":{"version":1,"sha256Hash":"%s"}}`, hashOf(p.query))
		p.ext = &ext
		// hash only (the text comes from the cache) or hash + text (registration)
		p.noQuery = p.query == "" || r.Intn(3) != 0
		c.Note += " [apq" + map[bool]string{true: " hash only", false: " hash+text"}[p.noQuery] + "]"
	}

	// ---- headers
	boundary := "vb" + id
	h := [][2]string{{"X-Verif-Id", id}}
	if sps, ok := ctSpellings[l.Ct]; ok {
		sp := pick(r, sps...)
		if forcedCT >= 0 {
			sp = sps[forcedCT%len(sps)]
		}
		if strings.Contains(sp, "%s") {
			sp = fmt.Sprintf(sp, boundary)
		}
		h = append(h, [2]string{"Content-Type", sp})
	}
	if len(l.Acc) > 0 {
		parts := make([]string, len(l.Acc))
		for i, tok := range l.Acc {
			parts[i] = pick(r, accSpellings[tok]...)
		}
		h = append(h, [2]string{"Accept", strings.Join(parts, pick(r, ", ", ",", " , "))})
	} else if r.Intn(4) == 0 {
		h = append(h, [2]string{"Accept", ""})
	}
	if l.Up {
		h = append(h, [2]string{"Upgrade", pick(r, "websocket", "WebSocket", "foo/2")})
	}
	c.Headers = h

	// ---- URL parameters: when the document travels in the URL
	if l.Carry == "url" || l.Carry == "both" {
		switch l.Val {
		case "undecEnv":
			c.Query = pick(r, "query=%zz", "query=%7Bq1%7D&variables=%", "query={q1};operationName=A", "query=%7Bq1%7D&%gg=1")
			c.Note = "URL query string that url.ParseQuery rejects"
		case "undecVars":
			c.Query = pick(r, "query=%7Bq1%7D&variables=notjson", "query=%7Bq1%7D&variables=%7B%22a%22", "query=%7Bq1%7D&extensions=%5B1%5D", "query=%7Bq1%7D&variables=5")
			c.Note = "variables / extensions parameter that is not a JSON object"
		default:
			c.Query = urlParams(p, r)
		}
	}
	if l.Carry == "url" {
		return c, p
	}
	if l.Carry == "both" {
		// the body holds the probe: an anonymous mutation, encoded as the
		// Content-Type class announces; the URL holds the request's own document
		bp := params{query: "mutation { m1 }"}
		c.Note += " [body: mutation { m1 }]"
		switch l.Ct {
		case "graphql":
			c.Body = bp.query
		case "form":
			c.Body = pick(r, jsonBody(bp, r), "query="+bp.query)
		case "multipart":
			c.Body = multipartBody(boundary, jsonBody(bp, r), true, "operations")
		default:
			c.Body = jsonBody(bp, r)
		}
		return c, p
	}

	// ---- body, by the carrier the Content-Type announces
	switch l.Ct {
	case "graphql":
		switch {
		case l.Val == "undecEnv" || l.Val == "undecVars":
			c.Body = pick(r, "%7B%zz", "query=%7Bq1%zz%7D")
			c.Note = "application/graphql body with a broken percent escape"
		case strings.HasPrefix(p.query, "{") && r.Intn(2) == 0:
			c.Body = pick(r, "", "query=") + url.QueryEscape(p.query)
		default:
			c.Body = pick(r, "", "query=") + p.query
		}
	case "form":
		switch {
		case l.Val == "undecEnv":
			c.Body = pick(r, `{"query": "{ q1 }"`, "query=%7Bq1%zz%7D", `{"query":["{ q1 }"]}`)
			c.Note = "form body that cannot be decoded"
		case l.Val == "undecVars":
			c.Body = pick(r, `{"query":"{ q1 }","variables":5}`, `{"query":"{ q1 }","variables":"x"}`)
			c.Note = "form body (JSON) whose variables are not an object"
		case p.opn == "" && p.vars == nil && p.ext == nil && strings.HasPrefix(p.query, "{") && r.Intn(2) == 0:
			c.Body = "query=" + url.QueryEscape(p.query)
		case p.opn == "" && p.vars == nil && p.ext == nil && r.Intn(2) == 0:
			c.Body = pick(r, "", "query=") + p.query
		default:
			c.Body = jsonBody(p, r)
		}
	case "multipart":
		switch l.Val {
		case "undecEnv":
			switch r.Intn(4) {
			case 0:
				c.Body = multipartBody(boundary, `{"query": `, true, "operations")
			case 1:
				c.Body = multipartBody(boundary, jsonBody(p, r), true, "foo")
			case 2:
				c.Body = multipartBody(boundary, jsonBody(p, r), false, "operations")
			case 3:
				c.Body = "this is not multipart"
			}
			c.Note = "multipart form that cannot be decoded"
		case "undecVars":
			c.Body = multipartBody(boundary, `{"query":"{ q1 }","variables":5}`, true, "operations")
			c.Note = "multipart operations whose variables are not an object"
		default:
			c.Body = multipartBody(boundary, jsonBody(p, r), true, "operations")
		}
	default: // json and every class no transport decodes: a JSON body
		switch l.Val {
		case "undecEnv":
			c.Body = pick(r, `{"query": "{ q1 }"`, `hello`, `[{"query":"{ q1 }"}]`, `"{ q1 }"`, `{"query":{"a":1}}`)
			c.Note = "body that is not a JSON request object"
		case "undecVars":
			c.Body = pick(r, `{"query":"{ q1 }","variables":"x"}`, `{"query":"{ q1 }","variables":[1]}`, `{"query":"{ q1 }","extensions":3}`)
			c.Note = "JSON body whose variables / extensions are not objects"
		default:
			c.Body = jsonBody(p, r)
		}
	}
	return c, p
}
