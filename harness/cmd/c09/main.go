// C09: HTTP - GET never mutates; status and content type follow the request outcome.
//
// TLC checks spec/Http.tla on the full finite product of MC_Http.cfg (quick)
// or MC_HttpFull.cfg (thorough), one run per server configuration, and prints
// one line per (server, request) with the answer the specification admits.
// This driver builds the REAL handler.Server for every server configuration,
// sends one concrete representative of every enumerated request over a real
// net/http connection and compares: transport entered, resolver log, status,
// Content-Type, body kind.
package main

import (
	"bytes"
	"context"
	"encoding/json"
	"fmt"
	"hash/fnv"
	"io"
	"log"
	"math/rand"
	"mime"
	"net/http"
	"os"
	"path/filepath"
	"sort"
	"strconv"
	"strings"
	"sync"
	"sync/atomic"
	"time"

	"verifharness/vlib"
)

// Observed is what one reply looked like.
type Observed struct {
	Status int      `json:"status"`
	CT     []string `json:"content_type"`
	CTCls  string   `json:"content_type_class"`
	Body   string   `json:"body"`
	Kind   string   `json:"body_kind"`
	Shape  string   `json:"body_shape_error,omitempty"`
	Tix    int      `json:"transport_index"`
	Log    []string `json:"resolver_log"`
}

type scenario struct {
	Server   SrvDef   `json:"server"`
	Line     Line     `json:"prescription"`
	Request  Concrete `json:"request"`
	Observed Observed `json:"observed"`
}

var client = &http.Client{
	Transport: &http.Transport{
		MaxIdleConns:        64,
		MaxIdleConnsPerHost: 16,
		DisableCompression:  true,
	},
	Timeout: 30 * time.Second,
}

func ctClass(vals []string) string {
	if len(vals) == 0 {
		return "absent"
	}
	cls := ""
	for _, v := range vals {
		mt, _, err := mime.ParseMediaType(v)
		c := mt
		if err != nil && mt == "" {
			c = "unparseable:" + v
		}
		switch mt {
		case "application/json":
			c = "json"
		case "application/graphql-response+json":
			c = "gqlresp"
		case "text/event-stream":
			c = "sse"
		case "multipart/mixed":
			c = "mixed"
		case "text/plain":
			c = "sniffed"
		}
		if cls != "" && cls != c {
			return "conflict"
		}
		cls = c
	}
	return cls
}

// bodyKind abstracts a reply body: "empty", "data", "errors", "stream",
// "json-other", "notjson"; shape != "" when it is JSON but not a GraphQL response.
func bodyKind(body []byte, ct string) (kind, shape string) {
	if len(bytes.TrimSpace(body)) == 0 {
		return "empty", ""
	}
	if ct == "sse" || ct == "mixed" {
		return "stream", ""
	}
	var m map[string]json.RawMessage
	dec := json.NewDecoder(bytes.NewReader(body))
	if err := dec.Decode(&m); err != nil || m == nil {
		return "notjson", ""
	}
	if dec.More() {
		return "notjson", ""
	}
	for k := range m {
		switch k {
		case "data", "errors", "extensions", "hasNext", "label", "path", "incremental":
		default:
			shape = "unexpected top-level key " + k
		}
	}
	hasErrors := false
	if e, ok := m["errors"]; ok {
		var errs []map[string]json.RawMessage
		if err := json.Unmarshal(e, &errs); err != nil {
			shape = "errors is not a list of objects"
		} else {
			hasErrors = len(errs) > 0
			for _, x := range errs {
				var msg string
				if err := json.Unmarshal(x["message"], &msg); err != nil {
					shape = "error without message string"
				}
			}
		}
	}
	if d, ok := m["data"]; ok && string(bytes.TrimSpace(d)) != "null" {
		return "data", shape
	}
	if hasErrors {
		return "errors", shape
	}
	return "json-other", shape
}

func send(ls *liveServer, c Concrete, id string) (Observed, error) {
	u := ls.ts.URL + "/graphql"
	if c.Query != "" {
		u += "?" + c.Query
	}
	var body io.Reader
	if c.Body != "" {
		body = strings.NewReader(c.Body)
	}
	req, err := http.NewRequest(c.Method, u, body)
	if err != nil {
		return Observed{}, fmt.Errorf("new request: %w", err)
	}
	for _, kv := range c.Headers {
		req.Header[kv[0]] = append(req.Header[kv[0]], kv[1])
	}
	resp, err := client.Do(req)
	if err != nil {
		return Observed{}, err
	}
	b, err := io.ReadAll(resp.Body)
	resp.Body.Close()
	if err != nil {
		return Observed{}, fmt.Errorf("read body: %w", err)
	}
	o := Observed{Status: resp.StatusCode, CT: resp.Header.Values("Content-Type"), Body: string(b), Log: []string{}}
	if o.CT == nil {
		o.CT = []string{}
	}
	o.CTCls = ctClass(o.CT)
	o.Kind, o.Shape = bodyKind(b, o.CTCls)
	v, ok := ls.store.LoadAndDelete(id)
	if !ok {
		return o, fmt.Errorf("request %s never reached the handler", id)
	}
	rec := v.(*reqRec)
	select {
	case <-rec.done:
	case <-time.After(20 * time.Second):
		return o, fmt.Errorf("handler of request %s did not return", id)
	}
	rec.mu.Lock()
	o.Tix = rec.tix
	o.Log = append(o.Log, rec.log...)
	rec.mu.Unlock()
	return o, nil
}

func sameLog(a, b []string) bool {
	if len(a) != len(b) {
		return false
	}
	x := append([]string{}, a...)
	y := append([]string{}, b...)
	sort.Strings(x)
	sort.Strings(y)
	for i := range x {
		if x[i] != y[i] {
			return false
		}
	}
	return true
}

type verdict struct {
	key, detail string
}

// judge compares an observation with the prescription of the specification.
func judge(l *Line, c *Concrete, o *Observed) (vs []verdict, drift bool, devSeen bool) {
	add := func(key, f string, a ...any) { vs = append(vs, verdict{key, fmt.Sprintf(f, a...)}) }
	where := fmt.Sprintf("{tk=%s,cls=%s}", l.Tk, l.Cls)

	// the property, directly
	if l.M == "GET" {
		for _, e := range o.Log {
			if !strings.HasPrefix(e, "query:") {
				add("get-executed-non-query"+where, "a GET request resolved %s", e)
			}
		}
	}
	if (o.Status < 200 || o.Status > 299) && len(o.Log) > 0 {
		add("resolver-ran-but-status-not-2xx"+where, "status %d although %v was resolved", o.Status, o.Log)
	}
	// transport selection
	if o.Tix != l.Ti {
		add(fmt.Sprintf("transport-selection{want=%s,method=%s,ct=%s,up=%v}", l.Tk, l.M, l.Ct, l.Up),
			"specification selects transport #%d (%s), the server entered #%d", l.Ti, l.Tk, o.Tix)
	}
	// exactly the named operation
	if want := expectedLog(l); !sameLog(want, o.Log) {
		add("executed-operations"+where, "resolver log %v, the request names %v", o.Log, want)
	}
	// status + content type
	okRule, okStatusOnly := false, false
	for _, r := range l.Rules {
		if o.Status >= r.Lo && o.Status <= r.Hi {
			okStatusOnly = true
			if r.Ct == "any" || r.Ct == o.CTCls {
				okRule = true
			}
		}
	}
	if !okRule {
		switch {
		case l.Dev != "" && okStatusOnly && o.CTCls != "json" && o.CTCls != "gqlresp":
			devSeen = true
			add(l.Dev, "status %d with Content-Type %q (class %s): the body is a GraphQL response but the Content-Type is not one of %s",
				o.Status, strings.Join(o.CT, " | "), o.CTCls, rulesText(l.Rules))
		case okStatusOnly:
			add("content-type"+where, "status %d with Content-Type %q (class %s); admitted: %s", o.Status, strings.Join(o.CT, " | "), o.CTCls, rulesText(l.Rules))
		default:
			add(fmt.Sprintf("status{tk=%s,cls=%s,ct=%s,status=%d}", l.Tk, l.Cls, o.CTCls, o.Status),
				"status %d with Content-Type class %s; admitted: %s", o.Status, o.CTCls, rulesText(l.Rules))
		}
	}
	// body
	anyBody := false
	okBody := false
	for _, b := range l.Bodies {
		if b == "any" {
			anyBody = true
		}
		if b == o.Kind {
			okBody = true
		}
	}
	if !anyBody {
		if !okBody {
			add("body-kind"+where, "body kind %s (%.120q); admitted: %v", o.Kind, o.Body, l.Bodies)
		} else if o.Shape != "" {
			add("body-shape"+where, "body is JSON but not a GraphQL response: %s (%.120q)", o.Shape, o.Body)
		}
	}
	// implementation-level model (no alarm): does the code still do what the actions say?
	if l.Ist != 0 && l.Ist != o.Status {
		drift = true
	}
	if l.Ict != "unmodelled" && l.Ict != o.CTCls {
		drift = true
	}
	if l.Ib != "unmodelled" && l.Ib != o.Kind {
		drift = true
	}
	return vs, drift, devSeen
}

func rulesText(rs []Rule) string {
	var s []string
	for _, r := range rs {
		st := fmt.Sprintf("%d-%d", r.Lo, r.Hi)
		if r.Lo == r.Hi {
			st = strconv.Itoa(r.Lo)
		}
		s = append(s, st+"/"+r.Ct)
	}
	sort.Strings(s)
	return "[" + strings.Join(s, " ") + "]"
}

func seedFor(parts ...any) int64 {
	h := fnv.New64a()
	fmt.Fprint(h, parts...)
	return int64(h.Sum64() & 0x7fffffffffffffff)
}

// ------------------------------------------------------------------ TLC

func tlaServer(d SrvDef) string {
	var ts []string
	for _, t := range d.Ts {
		ts = append(ts, fmt.Sprintf(`T("%s", "%s")`, t.K, t.Rh))
	}
	return fmt.Sprintf(`[id |-> "%s", qc |-> %s, ts |-> <<%s>>]`, d.ID, strings.ToUpper(strconv.FormatBool(d.Qc)), strings.Join(ts, ", "))
}

// randomServers draws server configurations from VERIF_SEED: a random subset
// of the nine transports in random order with random ResponseHeaders.
func randomServers(r *rand.Rand, n int) []SrvDef {
	kinds := []string{"OPTIONS", "GET", "POST", "GRAPHQL", "FORM", "MULTIPART", "SSE", "MIXED", "WS"}
	rhs := []string{"none", "json", "gqlresp", "lcjson", "other", "json+other"}
	var out []SrvDef
	for i := 0; i < n; i++ {
		d := SrvDef{ID: fmt.Sprintf("R%d", i+1), Qc: r.Intn(2) == 0, Ts: []TDef{}}
		for _, j := range r.Perm(len(kinds)) {
			if r.Intn(5) == 0 {
				continue
			}
			t := TDef{K: kinds[j], Rh: "none"}
			switch t.K {
			case "GET", "POST", "GRAPHQL", "FORM", "MULTIPART":
				t.Rh = rhs[r.Intn(len(rhs))]
			}
			d.Ts = append(d.Ts, t)
		}
		out = append(out, d)
	}
	return out
}

var wantSample = map[string]bool{"GET/refused": true, "GET/executed": true, "POST/protoErr": true, "none/none": true, "FORM/executed": true, "GRAPHQL/protoErr": true}

type pendingViolation struct {
	key, detail string
	sc          scenario
}

type job struct {
	srv  SrvDef
	cfg  string // base cfg whose Servers line is replaced
	only string // definition name in MC_HttpRun
}

func main() {
	log.SetOutput(io.Discard) // gqlgen's transports log decode failures
	c := vlib.NewCheck("C09", "model_checking")
	allLits, extraLits, err := scanMediaLiterals()
	if err != nil || len(allLits) == 0 {
		vlib.Infra("scan of media type literals in %s: %v (%d found)", vlib.Repo(), err, len(allLits))
	}
	if err := selfCheckSpellings(); err != nil {
		vlib.Infra("concretiser self-check: %v", err)
	}
	if rp := os.Getenv("VERIF_REPLAY"); rp != "" {
		replayOne(c, rp)
		return
	}
	thorough := vlib.Tier() == "thorough"
	rng := rand.New(rand.NewSource(vlib.Seed()))

	// the fixed servers are defined in spec/MC_Http.tla and read back from
	// TLC's SERVERS line; the random ones are written into a generated module
	baseCfg := "MC_Http.cfg"
	fixed := []string{"S1", "S2", "S3", "S5", "S7"}
	nRandom := 1
	if thorough {
		baseCfg = "MC_HttpFull.cfg"
		fixed = []string{"S1", "S2", "S3", "S4", "S5", "S6", "S7"}
		nRandom = 6
	}
	variants := 1
	if thorough {
		variants = 2
	}
	rnd := randomServers(rng, nRandom)
	// negative configurations: a Supports slip of a body transport must violate GetNeverMutates in the model
	negResults := map[string]string{}
	if thorough {
		for _, n := range []string{"postlegacy", "graphqlmethod"} {
			res, err := vlib.RunTLC(vlib.TLCOpts{Module: "MC_Http", Config: "MC_Http_neg_" + n + ".cfg", Workers: 2,
				Timeout: 10 * time.Minute, Scratch: vlib.Work("C09", "tlc-neg-"+n), HeapGB: 4})
			if err != nil {
				vlib.Infra("TLC neg %s: %v", n, err)
			}
			if res.OK || !strings.Contains(res.Violation, "Invariant GetNeverMutates is violated") {
				vlib.Infra("negative configuration %s: expected GetNeverMutates to be violated, TLC says:\n%s", n, res.Violation)
			}
			negResults[n] = "GetNeverMutates"
		}
	}
	cfgText, err := os.ReadFile(filepath.Join(vlib.SpecDir(), baseCfg))
	if err != nil {
		vlib.Infra("read %s: %v", baseCfg, err)
	}
	quickCfg, err := os.ReadFile(filepath.Join(vlib.SpecDir(), "MC_Http.cfg"))
	if err != nil {
		vlib.Infra("read MC_Http.cfg: %v", err)
	}
	var mod strings.Builder
	mod.WriteString("---- MODULE MC_HttpRun ----\nEXTENDS MC_Http\n")
	var names []string
	for _, d := range rnd {
		fmt.Fprintf(&mod, "%s == %s\n", d.ID, tlaServer(d))
		names = append(names, d.ID)
	}
	fmt.Fprintf(&mod, "ASSUME PrintT(ToJson([servers |-> {%s}]))\n", strings.Join(names, ", "))
	for _, id := range append(append([]string{}, fixed...), names...) {
		fmt.Fprintf(&mod, "Only%s == {%s}\n", id, id)
	}
	mod.WriteString("====\n")

	type tlcOut struct {
		id    string
		res   *vlib.TLCResult
		lines []string
	}
	data := map[string][]byte{"MC_HttpRun.tla": []byte(mod.String())}
	var ids []string
	for _, id := range fixed {
		ids = append(ids, id)
		data["Run_"+id+".cfg"] = []byte(replaceServers(string(cfgText), "Only"+id))
	}
	for _, id := range names {
		ids = append(ids, id)
		// random servers: the quick request space
		data["Run_"+id+".cfg"] = []byte(replaceServers(string(quickCfg), "Only"+id))
	}

	tlcCh := make(chan tlcOut, 1)
	go func() {
		defer close(tlcCh)
		for _, id := range ids {
			res, err := vlib.RunTLC(vlib.TLCOpts{
				Module: "MC_HttpRun", Config: "Run_" + id + ".cfg", Data: data, Workers: 1,
				Timeout: 15 * time.Minute, Coverage: true, Scratch: vlib.Work("C09", "tlc-"+id), HeapGB: 4,
			})
			if err != nil {
				vlib.Infra("TLC %s: %v", id, err)
			}
			if !res.OK {
				vlib.Infra("TLC on the model alone failed for server %s (specification error, not a verdict about the code):\n%s", id, res.Violation)
			}
			lines := res.Printed
			res.Printed = nil
			res.Output = ""
			tlcCh <- tlcOut{id, res, lines}
		}
	}()

	defs := map[string]SrvDef{}
	var (
		replayed, drifts, devSeen, devNotSeen, dupCT atomic.Int64
		classMu                                      sync.Mutex
		driftSamples                                 []any
		perServer                                    = map[string]int64{}
		perOutcome                                   = map[string]int64{}
		driftBy                                      = map[string]int64{}
		tried                                        = map[string]bool{} // method|has body|Content-Type literal, on POST-first servers
		actionMin                                    = map[string]int64{}
	)
	var pending []pendingViolation
	reportedKey := map[string]bool{}
	violationsSeen := 0
	t0 := time.Now()
	var tlcWall float64
	for out := range tlcCh {
		tlcWall += out.res.WallS
		c.AddStates(out.res.Distinct, out.res.Generated)
		for a, n := range out.res.ActionCount {
			actionMin[a] += n
		}
		var reqLines []string
		for _, ln := range out.lines {
			s, err := strconv.Unquote(ln)
			if err != nil {
				continue
			}
			if strings.HasPrefix(s, `{"servers":`) {
				var sv struct {
					Servers []SrvDef `json:"servers"`
				}
				if err := json.Unmarshal([]byte(s), &sv); err != nil {
					vlib.Infra("SERVERS line: %v", err)
				}
				for _, d := range sv.Servers {
					defs[d.ID] = d
				}
				continue
			}
			if strings.HasPrefix(s, `{"sv":`) {
				reqLines = append(reqLines, s)
			}
		}
		def, ok := defs[out.id]
		if !ok {
			vlib.Infra("TLC printed no definition of server %s", out.id)
		}
		if len(reqLines) == 0 {
			vlib.Infra("TLC enumerated no request for server %s (vacuous)", out.id)
		}
		// round-robin over the spellings of the Content-Type class "other"
		// inside every (method, carry) cell of this server
		forced := make([]int, len(reqLines))
		cell := map[string]int{}
		for i, ln := range reqLines {
			var h struct{ M, Ct, Carry string }
			if err := json.Unmarshal([]byte(ln), &h); err != nil {
				vlib.Infra("export line: %v", err)
			}
			forced[i] = -1
			if h.Ct == "other" {
				k := h.M + "|" + h.Carry
				forced[i] = int(vlib.Seed()) + cell[k]
				cell[k]++
			}
		}
		postFirst := isPostFirst(def)
		ls := startServer(def)
		var wg sync.WaitGroup
		idx := make(chan int, 256)
		const workers = 6
		for w := 0; w < workers; w++ {
			wg.Add(1)
			go func() {
				defer wg.Done()
				for i := range idx {
					var l Line
					if err := json.Unmarshal([]byte(reqLines[i]), &l); err != nil {
						vlib.Infra("export line: %v: %s", err, reqLines[i])
					}
					if l.Sv != def.ID {
						vlib.Infra("line for server %s in the run of %s", l.Sv, def.ID)
					}
					for variant := 0; variant < variants; variant++ {
						id := fmt.Sprintf("%s-%d-%d", def.ID, i, variant)
						r := rand.New(rand.NewSource(seedFor(vlib.Seed(), def.ID, variant, reqLines[i])))
						fc := forced[i]
						if fc >= 0 {
							fc += variant * 3
						}
						conc, p := concretise(&l, r, id, fc)
						if postFirst && l.Ct == "other" {
							for _, kv := range conc.Headers {
								if kv[0] == "Content-Type" {
									classMu.Lock()
									tried[fmt.Sprintf("%s|%v|%s", l.M, conc.Body != "", kv[1])] = true
									classMu.Unlock()
								}
							}
						}
						if l.Src == "apq" {
							ls.apq.Add(context.Background(), hashOf(p.query), p.query)
						}
						obs, err := send(ls, conc, id)
						if err != nil {
							// one retry: a transport-level hiccup is not a verdict
							time.Sleep(200 * time.Millisecond)
							id2 := id + "r"
							conc.Headers[0][1] = id2
							obs, err = send(ls, conc, id2)
							if err != nil {
								vlib.Infra("request %s %s?%s to server %s: %v", conc.Method, "/graphql", conc.Query, def.ID, err)
							}
						}
						replayed.Add(1)
						if len(obs.CT) > 1 {
							dupCT.Add(1)
						}
						vs, drift, dv := judge(&l, &conc, &obs)
						if l.Dev != "" {
							if dv {
								devSeen.Add(1)
							} else {
								devNotSeen.Add(1)
							}
						}
						sc := scenario{Server: def, Line: l, Request: conc, Observed: obs}
						for _, v := range vs {
							classMu.Lock()
							if len(pending) < 4000 {
								pending = append(pending, pendingViolation{v.key, fmt.Sprintf("server %s %v\nrequest: %s /graphql?%s headers=%v body=%q\n%s", def.ID, def.Ts, conc.Method, conc.Query, conc.Headers[1:], conc.Body, v.detail), sc})
							}
							classMu.Unlock()
						}
						cls := fmt.Sprintf("%s/%s/%s/%s/%s/%s/acc=%s/up=%v/%s", l.Tk, l.Cls, l.Val, l.M, l.Carry, l.Ct, strings.Join(l.Acc, "+"), l.Up, l.Src)
						c.Class(cls)
						classMu.Lock()
						perServer[def.ID]++
						perOutcome[l.Tk+"/"+l.Cls]++
						first := perOutcome[l.Tk+"/"+l.Cls] == 1
						if drift {
							drifts.Add(1)
							driftBy[fmt.Sprintf("%s/%s/%s: model %d %s %s, code %d %s %s", l.Tk, l.Cls, l.M, l.Ist, l.Ict, l.Ib, obs.Status, obs.CTCls, obs.Kind)]++
							if len(driftSamples) < 5 {
								driftSamples = append(driftSamples, sc)
							}
						}
						classMu.Unlock()
						if first && wantSample[l.Tk+"/"+l.Cls] {
							c.Sample(map[string]any{"server": def.ID, "request": fmt.Sprintf("%s /graphql?%s %v %q", conc.Method, conc.Query, conc.Headers[1:], conc.Body),
								"prescribed": map[string]any{"transport": l.Tk, "class": l.Cls, "rules": rulesText(l.Rules), "bodies": l.Bodies, "exec": expectedLog(&l)},
								"observed":   map[string]any{"status": obs.Status, "content_type": obs.CT, "body": obs.Body, "log": obs.Log, "transport": obs.Tix}})
						}
					}
				}
			}()
		}
		for i := range reqLines {
			idx <- i
		}
		close(idx)
		wg.Wait()
		ls.close()
		// report one violation per distinct key first (the direct statements of
		// the property before everything else); repeats of a key are only counted
		sort.SliceStable(pending, func(i, j int) bool {
			di := strings.HasPrefix(pending[i].key, "get-executed-non-query") || strings.HasPrefix(pending[i].key, "resolver-ran")
			dj := strings.HasPrefix(pending[j].key, "get-executed-non-query") || strings.HasPrefix(pending[j].key, "resolver-ran")
			if di != dj {
				return di
			}
			return pending[i].key < pending[j].key
		})
		for _, pv := range pending {
			violationsSeen++
			if !reportedKey[pv.key] {
				reportedKey[pv.key] = true
				c.Violate(pv.key, pv.detail, pv.sc)
			}
		}
		pending = nil
		fmt.Fprintf(os.Stderr, "server %s: TLC %d distinct states in %.1fs, %d requests replayed (total %.1fs)\n",
			out.id, out.res.Distinct, out.res.WallS, len(reqLines), time.Since(t0).Seconds())
	}
	for _, a := range []string{"SelectTransport", "ParseUrl", "Negotiate", "Decode", "CreateOpCtx", "GuardGET", "Dispatch", "Write"} {
		if actionMin[a] == 0 {
			vlib.Infra("vacuous: action %s of Http was never taken", a)
		}
	}
	// every media type literal was tried on every method with and without a body on a POST-first server
	missing := []string{}
	for _, lit := range ctSpellings["other"] {
		for _, m := range []string{"GET", "HEAD", "OPTIONS", "PUT", "POST"} {
			for _, body := range []bool{false, true} {
				if m == "POST" && !body {
					continue
				}
				if k := fmt.Sprintf("%s|%v|%s", m, body, lit); !tried[k] {
					missing = append(missing, k)
				}
			}
		}
	}
	if len(missing) > 0 {
		vlib.Infra("vacuous: (method, has body, media type literal) never tried on a POST-first server: %v", missing)
	}
	n := replayed.Load()
	c.AddTraces(n)
	c.AddEvals(n)
	c.Set("rule", "TLC enumerates Servers x Methods x request Content-Type classes x Accept lists x Upgrade? x (document x operationName choice x validity class) x {inline, persisted-query hash}; "+
		"one request class = one initial state of Http; every class is replayed (quick: one, thorough: two seeded spellings) against the real handler.Server with seeded spellings of headers, documents and bodies; "+
		"a distinct class = (transport, outcome class, validity, method, carrier, content type, Accept list, Upgrade, query source); media type literals found in the tree under test are extra Content-Type spellings, tried round-robin in every (method, carrier) cell")
	c.Set("exhaustive", true)
	c.Set("servers", ids)
	c.Set("violating_comparisons", violationsSeen)
	c.Set("media_type_literals_in_tree", allLits)
	c.Set("media_type_literals_tried_as_other_content_type", extraLits)
	c.Set("method_body_literal_triples_tried_on_post_first_servers", len(tried))
	c.Set("model_negative_configs", negResults)
	c.Set("random_servers", rnd)
	c.Set("requests_per_server", perServer)
	c.Set("requests_per_outcome", perOutcome)
	c.Set("tlc_wall_s", tlcWall)
	c.Set("tlc_action_counts", actionMin)
	c.Set("impl_level_drift", drifts.Load())
	c.Set("impl_level_drift_samples", driftSamples)
	c.Set("impl_level_drift_by_class", driftBy)
	c.Set("undecided_observations", observations())
	c.Set("spellings_per_request", variants)
	c.Set("replies_with_duplicate_content_type_header", dupCT.Load())
	c.Set("deviation_lines_observed", devSeen.Load())
	c.Set("deviation_lines_not_observed", devNotSeen.Load())
	c.Assume("the hand-written ExecutableSchema stands for generated code: query/mutation root fields resolve when the response handler is called, subscription root fields inside Exec")
	c.Assume("a wrapper around each real transport records that its Do was entered; Supports and Do are the transport's own")
	c.Assume("class representatives: one seeded spelling per enumerated request; spellings are validated against mime.ParseMediaType before use")
	c.Assume("Accept q-values are spellings (never q=0); text/event-stream and multipart/mixed are spelled in lower case because the transports match them by substring")
	if n == 0 {
		vlib.Infra("nothing replayed")
	}
	c.Finish()
}

// isPostFirst: POST is registered and GET is absent or registered after it.
func isPostFirst(d SrvDef) bool {
	post, get := -1, -1
	for i, t := range d.Ts {
		if t.K == "POST" && post < 0 {
			post = i
		}
		if t.K == "GET" && get < 0 {
			get = i
		}
	}
	return post >= 0 && (get < 0 || post < get)
}

func replaceServers(cfg, name string) string {
	var out []string
	done := false
	for _, ln := range strings.Split(cfg, "\n") {
		if strings.HasPrefix(strings.TrimSpace(ln), "Servers <-") {
			ln = "  Servers <- " + name
			done = true
		}
		out = append(out, ln)
	}
	if !done {
		vlib.Infra("no 'Servers <-' line in cfg")
	}
	return strings.Join(out, "\n")
}

// replayOne re-runs one recorded scenario (./check C09 --replay file).
func replayOne(c *vlib.Check, path string) {
	b, err := os.ReadFile(path)
	if err != nil {
		vlib.Infra("replay: %v", err)
	}
	var f struct {
		Scenario scenario `json:"scenario"`
	}
	if err := json.Unmarshal(b, &f); err != nil {
		vlib.Infra("replay: %v", err)
	}
	sc := f.Scenario
	ls := startServer(sc.Server)
	defer ls.close()
	if sc.Line.Src == "apq" {
		ls.apq.Add(context.Background(), hashOf(sc.Request.Text), sc.Request.Text)
	}
	id := "replay-1"
	sc.Request.Headers[0][1] = id
	obs, err := send(ls, sc.Request, id)
	if err != nil {
		vlib.Infra("replay: %v", err)
	}
	vs, _, _ := judge(&sc.Line, &sc.Request, &obs)
	sc.Observed = obs
	fmt.Printf("replayed: %s /graphql?%s -> %d %v %q log=%v transport=%d\n", sc.Request.Method, sc.Request.Query, obs.Status, obs.CT, obs.Body, obs.Log, obs.Tix)
	for _, v := range vs {
		c.Violate(v.key, v.detail, sc)
	}
	c.AddTraces(1)
	c.AddEvals(1)
	c.Class("replay")
	c.Sample(sc)
	c.Finish()
}
