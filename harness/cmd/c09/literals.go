package main

import (
	"mime"
	"os"
	"path/filepath"
	"regexp"
	"sort"
	"strings"

	"verifharness/vlib"
)

var reMediaLiteral = regexp.MustCompile(`"((?:application|multipart|text)/[A-Za-z0-9.+*-]+)"`)

// scanMediaLiterals reads the transport package and server.go of the tree
// under test (non-test files) and returns every string literal that looks
// like a media type.  Literals that are not the canonical spelling of a
// modelled request Content-Type class become extra spellings of the class
// "other": a media type that a change starts to accept somewhere is thereby
// tried as a request Content-Type on every method, with and without a body.
func scanMediaLiterals() (all, extra []string, err error) {
	files, err := filepath.Glob(filepath.Join(vlib.Repo(), "graphql", "handler", "transport", "*.go"))
	if err != nil {
		return nil, nil, err
	}
	files = append(files, filepath.Join(vlib.Repo(), "graphql", "handler", "server.go"))
	seen := map[string]bool{}
	for _, f := range files {
		if strings.HasSuffix(f, "_test.go") {
			continue
		}
		b, err := os.ReadFile(f)
		if err != nil {
			return nil, nil, err
		}
		for _, m := range reMediaLiteral.FindAllStringSubmatch(string(b), -1) {
			seen[m[1]] = true
		}
	}
	for lit := range seen {
		all = append(all, lit)
	}
	sort.Strings(all)
	have := map[string]bool{}
	for _, sp := range ctSpellings["other"] {
		have[sp] = true
	}
	for _, lit := range all {
		mt, _, perr := mime.ParseMediaType(lit)
		if perr != nil || have[lit] {
			continue
		}
		modelled := false
		for _, m := range ctMedia {
			if mt == m {
				modelled = true
			}
		}
		if modelled {
			continue
		}
		extra = append(extra, lit)
		ctSpellings["other"] = append(ctSpellings["other"], lit)
		have[lit] = true
	}
	return all, extra, nil
}
