package main

import (
	"context"
	"encoding/json"
	"io"
	"log"
	"net/http"
	"net/http/httptest"
	"sync"

	"github.com/vektah/gqlparser/v2"
	"github.com/vektah/gqlparser/v2/ast"

	"github.com/99designs/gqlgen/graphql"
	"github.com/99designs/gqlgen/graphql/handler"
	"github.com/99designs/gqlgen/graphql/handler/extension"
	"github.com/99designs/gqlgen/graphql/handler/lru"
	"github.com/99designs/gqlgen/graphql/handler/transport"
)

// TDef / SrvDef mirror the server records of spec/MC_Http.tla (SERVERS line).
type TDef struct {
	K  string `json:"k"`
	Rh string `json:"rh"`
}

type SrvDef struct {
	ID string `json:"id"`
	Qc bool   `json:"qc"`
	Ts []TDef `json:"ts"`
}

const schemaSDL = `
type Query { q1(id: Int): String! q2(id: Int): String! q3(id: Int): String! }
type Mutation { m1(id: Int): String! m2(id: Int): String! m3(id: Int): String! }
type Subscription { s1(id: Int): String! s2(id: Int): String! s3(id: Int): String! }
`

// reqRec is what the harness observes about one request inside the server:
// which transport's Do ran and which root fields were resolved.
type reqRec struct {
	mu   sync.Mutex
	tix  int
	log  []string
	done chan struct{}
}

type recKey struct{}

func recOf(ctx context.Context) *reqRec {
	r, _ := ctx.Value(recKey{}).(*reqRec)
	return r
}

func (r *reqRec) resolved(kind, op, field string) {
	r.mu.Lock()
	r.log = append(r.log, kind+":"+op+":"+field)
	r.mu.Unlock()
}

// tagged wraps a REAL transport only to record that its Do was entered;
// Supports and Do are the transport's own.
type tagged struct {
	graphql.Transport
	idx int
}

func (t tagged) Do(w http.ResponseWriter, r *http.Request, exec graphql.GraphExecutor) {
	if rec := recOf(r.Context()); rec != nil {
		rec.mu.Lock()
		rec.tix = t.idx
		rec.mu.Unlock()
	}
	t.Transport.Do(w, r, exec)
}

func rhMap(rh string) map[string][]string {
	switch rh {
	case "json":
		return map[string][]string{"Content-Type": {"application/json"}}
	case "gqlresp":
		return map[string][]string{"Content-Type": {"application/graphql-response+json"}}
	case "lcjson":
		return map[string][]string{"content-type": {"application/json"}}
	case "other":
		return map[string][]string{"X-Verif": {"1"}}
	case "json+other":
		return map[string][]string{"Content-Type": {"application/json"}, "X-Verif": {"1"}}
	}
	return nil
}

func mkTransport(d TDef) graphql.Transport {
	h := rhMap(d.Rh)
	switch d.K {
	case "OPTIONS":
		return transport.Options{}
	case "GET":
		return transport.GET{ResponseHeaders: h}
	case "POST":
		return transport.POST{ResponseHeaders: h}
	case "GRAPHQL":
		return transport.GRAPHQL{ResponseHeaders: h}
	case "FORM":
		return transport.UrlEncodedForm{ResponseHeaders: h}
	case "MULTIPART":
		return transport.MultipartForm{ResponseHeaders: h}
	case "SSE":
		return transport.SSE{}
	case "MIXED":
		return transport.MultipartMixed{}
	case "WS":
		return transport.Websocket{}
	}
	panic("unknown transport kind " + d.K)
}

// apqCache is the persisted-query cache of every server; the harness adds
// the text of a request's document before it sends the hash.
type apqCache struct {
	mu sync.RWMutex
	m  map[string]string
}

func (c *apqCache) Get(_ context.Context, k string) (string, bool) {
	c.mu.RLock()
	v, ok := c.m[k]
	c.mu.RUnlock()
	return v, ok
}

func (c *apqCache) Add(_ context.Context, k, v string) {
	c.mu.Lock()
	c.m[k] = v
	c.mu.Unlock()
}

// executableSchema is a hand-written graphql.ExecutableSchema in the shape
// generated code has: query and mutation root fields are resolved when the
// response handler is first called, a subscription root field is resolved
// inside Exec.  Every resolved root field is logged in the request record.
func executableSchema() graphql.ExecutableSchema {
	schema := gqlparser.MustLoadSchema(&ast.Source{Input: schemaSDL})
	return &graphql.ExecutableSchemaMock{
		SchemaFunc: func() *ast.Schema { return schema },
		ComplexityFunc: func(ctx context.Context, typeName, fieldName string, childComplexity int, args map[string]any) (int, bool) {
			return 1, true
		},
		ExecFunc: func(ctx context.Context) graphql.ResponseHandler {
			opCtx := graphql.GetOperationContext(ctx)
			op := opCtx.Operation
			rec := recOf(ctx)
			resolve := func() []byte {
				data := map[string]string{}
				for _, s := range op.SelectionSet {
					if f, ok := s.(*ast.Field); ok {
						if rec != nil {
							rec.resolved(string(op.Operation), op.Name, f.Name)
						}
						data[f.Alias] = "ok"
					}
				}
				b, _ := json.Marshal(data)
				return b
			}
			switch op.Operation {
			case ast.Subscription:
				first := resolve()
				sent := false
				return func(ctx context.Context) *graphql.Response {
					if sent {
						return nil
					}
					sent = true
					return &graphql.Response{Data: first}
				}
			default:
				ran := false
				return func(ctx context.Context) *graphql.Response {
					if ran {
						return nil
					}
					ran = true
					return &graphql.Response{Data: resolve()}
				}
			}
		},
	}
}

// liveServer is one REAL handler.Server behind a real net/http server.
type liveServer struct {
	def   SrvDef
	ts    *httptest.Server
	apq   *apqCache
	store sync.Map // X-Verif-Id -> *reqRec
}

func startServer(def SrvDef) *liveServer {
	ls := &liveServer{def: def, apq: &apqCache{m: map[string]string{}}}
	srv := handler.New(executableSchema())
	for i, t := range def.Ts {
		srv.AddTransport(tagged{Transport: mkTransport(t), idx: i + 1})
	}
	srv.Use(extension.AutomaticPersistedQuery{Cache: ls.apq})
	if def.Qc {
		srv.SetQueryCache(lru.New[*ast.QueryDocument](64))
	}
	h := http.HandlerFunc(func(w http.ResponseWriter, r *http.Request) {
		rec := &reqRec{done: make(chan struct{})}
		if id := r.Header.Get("X-Verif-Id"); id != "" {
			ls.store.Store(id, rec)
		}
		defer close(rec.done)
		srv.ServeHTTP(w, r.WithContext(context.WithValue(r.Context(), recKey{}, rec)))
	})
	ls.ts = httptest.NewUnstartedServer(h)
	ls.ts.Config.ErrorLog = log.New(io.Discard, "", 0)
	ls.ts.Start()
	return ls
}

func (ls *liveServer) close() { ls.ts.Close() }
