// Package projgen is the shared harness of the Project checks (C17 generation
// totality, C18 determinism / idempotence, C19 resolver preservation): it
// builds the generator driver from /repo's current tree, creates scratch
// gqlgen projects inside the harness module, runs the real generator in them
// (separate processes), compiles the result offline, hashes generated files,
// and - for C19/C18 - concretises abstract Project.tla states into resolver
// source files and projects real trees back to abstract states.
package projgen

import (
	"crypto/sha256"
	"encoding/hex"
	"fmt"
	"os"
	"path/filepath"
	"sort"
	"strings"
	"sync"
	"sync/atomic"
	"syscall"
	"time"

	"verifharness/vlib"
)

// sem bounds the number of concurrently running generator / compiler
// processes started through this package (shared machine: <= 6).
var sem = make(chan struct{}, 6)

// cumulative wall time (ns) and count of generator / compiler processes
var (
	GenNanos, BuildNanos int64
	GenCount, BuildCount int64
)

func acquire() func() {
	sem <- struct{}{}
	return func() { <-sem }
}

var (
	pgenOnce sync.Once
	pgenPath string
	pgenErr  error
)

// BuildPgen builds projgen/cmd/pgen against the tree under test (the harness
// module replaces github.com/99designs/gqlgen with VERIF_REPO).
func BuildPgen() (string, error) {
	pgenOnce.Do(func() {
		out := vlib.Work("bin", "pgen")
		_ = os.MkdirAll(filepath.Dir(out), 0o755)
		lf, err := os.OpenFile(vlib.Work("bin", ".pgen.lock"), os.O_CREATE|os.O_RDWR, 0o644)
		if err == nil {
			_ = syscall.Flock(int(lf.Fd()), syscall.LOCK_EX)
			defer func() { _ = syscall.Flock(int(lf.Fd()), syscall.LOCK_UN); lf.Close() }()
		}
		o, err := vlib.RunCmd(vlib.Harness(), vlib.GoEnv(), 10*time.Minute, "go", "build", "-o", out, "./projgen/cmd/pgen")
		if err != nil {
			pgenErr = fmt.Errorf("build pgen: %v\n%s", err, o)
			return
		}
		pgenPath = out
	})
	return pgenPath, pgenErr
}

// GenOutcome is the observable outcome of one generator process.
type GenOutcome struct {
	Class  string // ok | error | cfgerror | panic | timeout | crash
	Stderr string
	WallS  float64
}

func (g GenOutcome) OK() bool { return g.Class == "ok" }

// GenOpts are the parameters of one Generate step that the outcome must not
// depend on (C18) plus the optional stub file.
type GenOpts struct {
	StartDir   string // directory (inside the project) to start from; "" = project root. Config is found by walking up.
	GoMaxProcs int    // 0 = inherit
	Stub       string // stubgen output file relative to the project root; forces explicit config path
	Explicit   bool   // pass "gqlgen.yml" explicitly (only valid from the project root)
}

// RunGen runs the real generator in its own process in project root `root`.
func RunGen(root string, o GenOpts) GenOutcome {
	bin, err := BuildPgen()
	if err != nil {
		vlib.Infra("%v", err)
	}
	defer acquire()()
	env := vlib.GoEnv()
	if o.GoMaxProcs > 0 {
		env = append(env, fmt.Sprintf("GOMAXPROCS=%d", o.GoMaxProcs))
	}
	dir := root
	args := []string{}
	if o.Stub != "" {
		args = []string{"gqlgen.yml", o.Stub}
	} else if o.Explicit {
		args = []string{"gqlgen.yml"}
	} else if o.StartDir != "" {
		dir = filepath.Join(root, o.StartDir)
		_ = os.MkdirAll(dir, 0o755)
	}
	t0 := time.Now()
	out, rerr := vlib.RunCmd(dir, env, 5*time.Minute, bin, args...)
	g := GenOutcome{Stderr: out, WallS: time.Since(t0).Seconds()}
	atomic.AddInt64(&GenNanos, int64(time.Since(t0)))
	atomic.AddInt64(&GenCount, 1)
	switch {
	case rerr == nil && strings.Contains(out, "PGEN-OUTCOME ok"):
		g.Class = "ok"
	case strings.Contains(out, "PGEN-OUTCOME panic") || strings.Contains(out, "\npanic: ") || strings.HasPrefix(out, "panic: "):
		g.Class = "panic"
	case strings.Contains(out, "PGEN-OUTCOME error"):
		g.Class = "error"
	case strings.Contains(out, "PGEN-OUTCOME cfgerror"):
		g.Class = "cfgerror"
	case rerr != nil && strings.Contains(rerr.Error(), "timeout after"):
		g.Class = "timeout"
	default:
		g.Class = "crash"
	}
	return g
}

// GenRoot is /verif/harness/gen/<GenName(name)>: generated packages must live
// inside the harness module to be importable / compilable offline.
func GenRoot(name string) string {
	return filepath.Join(vlib.Harness(), "gen", vlib.GenName(name))
}

// ImportBase is the import path of a project created under GenRoot(name).
func ImportBase(name string) string { return "verifharness/gen/" + vlib.GenName(name) }

// GoBuild compiles ./... below dir (a directory inside the harness module).
func GoBuild(dir string) (string, error) {
	defer acquire()()
	t0 := time.Now()
	defer func() { atomic.AddInt64(&BuildNanos, int64(time.Since(t0))); atomic.AddInt64(&BuildCount, 1) }()
	return vlib.RunCmd(dir, vlib.GoEnv(), 15*time.Minute, "go", "build", "./...")
}

// GoVet runs go vet ./... below dir.
func GoVet(dir string) (string, error) {
	defer acquire()()
	return vlib.RunCmd(dir, vlib.GoEnv(), 15*time.Minute, "go", "vet", "./...")
}

// HashTree returns path -> SHA-256 for every regular file below root whose
// relative path satisfies keep (nil = all).
func HashTree(root string, keep func(rel string) bool) (map[string]string, error) {
	out := map[string]string{}
	err := filepath.Walk(root, func(p string, info os.FileInfo, err error) error {
		if err != nil {
			return err
		}
		if info.IsDir() {
			return nil
		}
		rel, _ := filepath.Rel(root, p)
		if keep != nil && !keep(rel) {
			return nil
		}
		b, err := os.ReadFile(p)
		if err != nil {
			return err
		}
		h := sha256.Sum256(b)
		out[rel] = hex.EncodeToString(h[:])
		return nil
	})
	return out, err
}

// DiffHashes lists the paths whose hashes differ (or exist on one side only).
func DiffHashes(a, b map[string]string) []string {
	var d []string
	for k, v := range a {
		if w, ok := b[k]; !ok {
			d = append(d, k+" (missing in second)")
		} else if v != w {
			d = append(d, k)
		}
	}
	for k := range b {
		if _, ok := a[k]; !ok {
			d = append(d, k+" (missing in first)")
		}
	}
	sort.Strings(d)
	return d
}

// CopyTree copies a directory tree (regular files and directories only).
func CopyTree(src, dst string) error {
	return filepath.Walk(src, func(p string, info os.FileInfo, err error) error {
		if err != nil {
			return err
		}
		rel, _ := filepath.Rel(src, p)
		t := filepath.Join(dst, rel)
		if info.IsDir() {
			return os.MkdirAll(t, 0o755)
		}
		b, err := os.ReadFile(p)
		if err != nil {
			return err
		}
		return os.WriteFile(t, b, 0o644)
	})
}

// RewriteImportBase replaces the import base in all .go / .yml files below
// root (used when a project tree is cloned under another GenRoot).
func RewriteImportBase(root, from, to string) error {
	return filepath.Walk(root, func(p string, info os.FileInfo, err error) error {
		if err != nil || info.IsDir() {
			return err
		}
		if !strings.HasSuffix(p, ".go") && !strings.HasSuffix(p, ".yml") {
			return nil
		}
		b, err := os.ReadFile(p)
		if err != nil {
			return err
		}
		s := strings.ReplaceAll(string(b), from, to)
		if s != string(b) {
			return os.WriteFile(p, []byte(s), 0o644)
		}
		return nil
	})
}

// Parallel runs f(i) for i in [0,n) on at most w goroutines.
func Parallel(n, w int, f func(i int)) {
	if w < 1 {
		w = 1
	}
	var wg sync.WaitGroup
	ch := make(chan int)
	for k := 0; k < w; k++ {
		wg.Add(1)
		go func() {
			defer wg.Done()
			for i := range ch {
				f(i)
			}
		}()
	}
	for i := 0; i < n; i++ {
		ch <- i
	}
	close(ch)
	wg.Wait()
}
