// pgen is the generator driver of the Project checks (C17, C18, C19): the
// real config loading + api.Generate of /repo's current tree.
//
//	pgen                 config found by walking up from the working directory
//	                     (config.LoadConfigFromDefaultLocations, like the gqlgen CLI)
//	pgen <cfg> [stub]    explicit config file; optional stubgen output file
//
// Exit status: 0 ok, 1 generate returned an error, 3 config error, 4 panic.
// The last line on stderr is "PGEN-OUTCOME <ok|error|cfgerror|panic>".
package main

import (
	"fmt"
	"os"
	"runtime/debug"

	"github.com/99designs/gqlgen/api"
	"github.com/99designs/gqlgen/codegen/config"
	"github.com/99designs/gqlgen/plugin/stubgen"
)

func main() {
	defer func() {
		if r := recover(); r != nil {
			fmt.Fprintf(os.Stderr, "pgen: panic: %v\n%s\nPGEN-OUTCOME panic\n", r, debug.Stack())
			os.Exit(4)
		}
	}()
	var cfg *config.Config
	var err error
	if len(os.Args) > 1 && os.Args[1] != "" {
		cfg, err = config.LoadConfig(os.Args[1])
	} else {
		cfg, err = config.LoadConfigFromDefaultLocations()
	}
	if err != nil {
		fmt.Fprintln(os.Stderr, "pgen: config:", err)
		fmt.Fprintln(os.Stderr, "PGEN-OUTCOME cfgerror")
		os.Exit(3)
	}
	opts := []api.Option{}
	if len(os.Args) > 2 && os.Args[2] != "" {
		opts = append(opts, api.AddPlugin(stubgen.New(os.Args[2], "Stub")))
	}
	if err := api.Generate(cfg, opts...); err != nil {
		fmt.Fprintln(os.Stderr, "pgen: generate:", err)
		fmt.Fprintln(os.Stderr, "PGEN-OUTCOME error")
		os.Exit(1)
	}
	fmt.Fprintln(os.Stderr, "PGEN-OUTCOME ok")
}
