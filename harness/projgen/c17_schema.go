package projgen

// C17: seeded renderer  feature set (row of ProjectCover.tla) -> GraphQL SDL.
//
// Every feature of the row that is TRUE occurs at least once in the schema; the
// names, the number of types / fields and the order of definitions depend on
// the seed.  Names are chosen so that no two FIELDS of one type and no two
// ARGUMENTS of one field normalise to the same Go identifier (gqlgen neither
// documents nor handles that); type names and enum values normalise to the same
// Go identifier only when idTypeClash / idEnumClash ask for it.

import (
	"fmt"
	"hash/fnv"
	"math/rand"
	"sort"
	"strings"
)

type c17Arg struct {
	Name, Type, Default string
	Dirs                []string
}

type c17Field struct {
	Name, Type string
	Args       []*c17Arg
	Dirs       []string
	Default    string // input fields
}

type c17Val struct {
	Name string
	Dirs []string
}

type c17Type struct {
	Kind    string // object | interface | union | enum | input | scalar
	Name    string
	Impl    []string
	Fields  []*c17Field
	Vals    []*c17Val
	Members []string
	Dirs    []string
	// parts moved into an `extend` block of another file
	ExtFields  []*c17Field
	ExtVals    []*c17Val
	ExtMembers []string
}

type c17Schema struct {
	DirDecls []string
	Types    []*c17Type
	byName   map[string]*c17Type
}

func c17Canon(s string) string {
	return strings.ToLower(strings.ReplaceAll(s, "_", ""))
}

// c17NameSet hands out names whose canonical form is unused in the scope.
type c17NameSet struct{ used map[string]bool }

func c17NewNameSet(reserved ...string) *c17NameSet {
	n := &c17NameSet{used: map[string]bool{}}
	for _, r := range reserved {
		n.used[c17Canon(r)] = true
	}
	return n
}

func (n *c17NameSet) ok(s string) bool { return !n.used[c17Canon(s)] }

func (n *c17NameSet) take(s string) bool {
	if !n.ok(s) {
		return false
	}
	n.used[c17Canon(s)] = true
	return true
}

// pick returns the first free candidate (after a seeded rotation), or "".
func (n *c17NameSet) pick(rng *rand.Rand, cands []string) string {
	if len(cands) == 0 {
		return ""
	}
	off := rng.Intn(len(cands))
	for i := range cands {
		c := cands[(i+off)%len(cands)]
		if n.take(c) {
			return c
		}
	}
	return ""
}

func (t *c17Type) fieldNames() *c17NameSet {
	n := c17NewNameSet()
	for _, f := range t.Fields {
		n.take(f.Name)
	}
	for _, f := range t.ExtFields {
		n.take(f.Name)
	}
	return n
}

// add appends a field if its name is still free in the type.
func (t *c17Type) add(f *c17Field) bool {
	if !t.fieldNames().ok(f.Name) {
		return false
	}
	an := c17NewNameSet()
	var args []*c17Arg
	for _, a := range f.Args {
		if an.take(a.Name) {
			args = append(args, a)
		}
	}
	f.Args = args
	t.Fields = append(t.Fields, f)
	return true
}

func (s *c17Schema) addType(t *c17Type) *c17Type {
	s.Types = append(s.Types, t)
	s.byName[t.Name] = t
	return t
}

type c17Builder struct {
	row   C17Row
	seed  int64
	quirk C17Quirks
	rng   *rand.Rand
	s     *c17Schema
	types *c17NameSet // global type-name scope (canonical)
	base  string      // import base of the project
	objs  []*c17Type
	query *c17Type
	mut   *c17Type
	sub   *c17Type
	// representative types of optional kinds ("" when the kind is absent)
	iface, iface2, union, enum, input, input2 string
	fdir                                      []string // FIELD_DEFINITION directive applications available
	needHand                                  map[string]bool
	models                                    map[string]string   // GraphQL type -> Go type for the models: block
	resolverFields                            map[string][]string // GraphQL type -> fields with `resolver: true` in the models: block
}

var c17ObjPool = []string{"Item", "Order", "User", "Widget", "Place", "Event", "Doc", "Team", "Asset", "Album", "Parcel", "Ticket"}

var c17ScalarFieldPool = [][2]string{
	{"title", "String"}, {"count", "Int"}, {"ratio", "Float"}, {"active", "Boolean"}, {"note", "String"},
	{"rank", "Int"}, {"code", "ID"}, {"summary", "String!"}, {"amount", "Float!"}, {"visible", "Boolean!"},
	{"position", "Int!"}, {"ref", "ID!"}, {"comment", "String"}, {"weight", "Float"},
}

func c17LcFirst(s string) string {
	if s == "" {
		return s
	}
	return strings.ToLower(s[:1]) + s[1:]
}

// C17Quirks names constructs that trigger KNOWN gqlgen defects (open findings of
// C17).  They are left out of the enumerated space - otherwise every row that
// contains one would fail for the known reason and test nothing else - and are
// probed by one small row each (KnownDefect / ProbeNeeds in spec/ProjectCover.tla).
// Keys: nestedNullMix dirArgPredeclared funcSyntaxGoEnum stubKeywordType argNamedPanic
// autobindIntrospection valueStructCycle3 leadUnderscoreTypeResolver.
type C17Quirks map[string]bool

// c17BuildSchema builds the schema of a row.  It also returns what the config
// renderer needs: models bindings and which hand-written Go files are needed.
func c17BuildSchema(row C17Row, seed int64, base string) *c17Builder {
	quirks := row.Quirks()
	b := &c17Builder{row: row, seed: seed, quirk: quirks, rng: rand.New(rand.NewSource(seed)), base: base,
		s:        &c17Schema{byName: map[string]*c17Type{}},
		needHand: map[string]bool{}, models: map[string]string{}, resolverFields: map[string][]string{}}
	b.types = c17NewNameSet("Query", "Mutation", "Subscription", "Float", "Boolean", "ID",
		"Time", "Map", "Any", "Upload", "Resolver", "Config", "Stub")
	b.feature("core", b.core)
	if row.B("iface") || row.B("ifaceChain") {
		b.feature("interfaces", b.interfaces)
	}
	if row.B("union") {
		b.feature("unions", b.unions)
	}
	if row.B("enum") {
		b.feature("enums", b.enums)
	}
	if row.B("input") {
		b.feature("inputs", b.inputs)
	}
	if row.B("mutation") {
		b.feature("mutation", b.mutation)
	}
	if row.B("subscription") {
		b.feature("subscription", b.subscription)
	}
	if row.B("scalars") {
		b.feature("scalars", b.scalars)
	}
	if row.B("lists") {
		b.feature("lists", b.lists)
	}
	if row.B("idKeyword") {
		b.feature("idKeyword", b.idKeyword)
	}
	if row.B("idInitialism") {
		b.feature("idInitialism", b.idInitialism)
	}
	if row.B("idUnderscore") {
		b.feature("idUnderscore", b.idUnderscore)
	}
	if row.B("idEnumClash") {
		b.feature("idEnumClash", b.idEnumClash)
	}
	if row.B("idTypeClash") {
		b.feature("idTypeClash", b.idTypeClash)
	}
	if row.S("models") == "mixed" {
		b.feature("handWritten", b.handWritten)
	}
	if row.B("handInModel") {
		b.feature("handInModel", b.handInModel)
	}
	if row.B("ifaceOrphan") {
		b.feature("ifaceOrphan", b.ifaceOrphan)
	}
	if row.B("builtinDir") {
		b.feature("builtinDirs", b.builtinDirs)
	}
	if row.B("defaults") {
		b.feature("defaults", b.defaults)
	}
	if row.B("dirType") {
		b.feature("dirType", b.dirType)
	}
	if row.B("dirExec") {
		b.feature("dirExec", b.dirExec)
	}
	if row.B("extend") {
		b.feature("extend", b.extend)
	}
	return b
}

// feature renders one feature with a random source of its own, so that switching
// another feature on or off changes as little as possible of this one's rendering.
func (b *c17Builder) feature(name string, f func()) {
	h := fnv.New64a()
	_, _ = h.Write([]byte(name))
	b.rng = rand.New(rand.NewSource(b.seed ^ int64(h.Sum64()>>1)))
	f()
}

func (b *c17Builder) obj(i int) *c17Type { return b.objs[i%len(b.objs)] }

func (b *c17Builder) newType(kind string, cands ...string) *c17Type {
	name := b.types.pick(b.rng, cands)
	if name == "" {
		for i := 0; ; i++ {
			c := fmt.Sprintf("%s%d", cands[0], i)
			if b.types.take(c) {
				name = c
				break
			}
		}
	}
	return b.s.addType(&c17Type{Kind: kind, Name: name})
}

func (b *c17Builder) scalarField(t *c17Type) {
	ns := t.fieldNames()
	off := b.rng.Intn(len(c17ScalarFieldPool))
	for i := range c17ScalarFieldPool {
		p := c17ScalarFieldPool[(i+off)%len(c17ScalarFieldPool)]
		if ns.ok(p[0]) {
			t.add(&c17Field{Name: p[0], Type: p[1]})
			return
		}
	}
}

func (b *c17Builder) core() {
	b.query = b.s.addType(&c17Type{Kind: "object", Name: "Query"})
	n := 2 + b.rng.Intn(3)
	if b.quirk["valueStructCycle3"] {
		n = 3
	}
	for i := 0; i < n; i++ {
		t := b.newType("object", c17ObjPool...)
		t.add(&c17Field{Name: "id", Type: "ID!"})
		for k := 0; k < 2+b.rng.Intn(3); k++ {
			b.scalarField(t)
		}
		b.objs = append(b.objs, t)
	}
	// references between objects, including a cycle and a self reference
	for i, t := range b.objs {
		nx := b.obj(i + 1)
		t.add(&c17Field{Name: "next" + nx.Name, Type: nx.Name})
		if b.rng.Intn(2) == 0 {
			t.add(&c17Field{Name: "parent", Type: t.Name})
		}
		// non-null references i -> i+2: a self reference (n = 2), two 2-cycles (n = 4) or a
		// 3-cycle (n = 3).  Known defect: with struct_fields_always_pointers: false modelgen
		// breaks only self references and 2-cycles, so the 3-cycle is left open there.
		wantOwner := b.rng.Intn(2) == 0
		if n == 3 && i == 2 && !b.row.B("struct_fields_always_pointers") && !b.quirk["valueStructCycle3"] {
			wantOwner = false
		}
		if wantOwner || b.quirk["valueStructCycle3"] {
			t.add(&c17Field{Name: "owner" + b.obj(i+2).Name, Type: b.obj(i+2).Name + "!"})
		}
		b.query.add(&c17Field{Name: c17LcFirst(t.Name), Type: t.Name,
			Args: []*c17Arg{{Name: "id", Type: "ID!"}}})
	}
	b.query.add(&c17Field{Name: "find", Type: b.obj(0).Name,
		Args: []*c17Arg{{Name: "key", Type: "ID!"}, {Name: "limit", Type: "Int"}, {Name: "exact", Type: "Boolean!"}}})
	b.query.add(&c17Field{Name: "version", Type: "String!"})
	// models.<Type>.fields.<field>.resolver: true - a resolver for a field of a plain object
	o0 := b.obj(0)
	b.resolverFields[o0.Name] = append(b.resolverFields[o0.Name], o0.Fields[1+b.rng.Intn(2)].Name)
	// a field with arguments on a non-root object
	b.obj(0).add(&c17Field{Name: "related", Type: b.obj(1).Name,
		Args: []*c17Arg{{Name: "first", Type: "Int"}, {Name: "after", Type: "ID"}}})
}

func (b *c17Builder) interfaces() {
	i0 := b.newType("interface", "Node", "Entity", "Named", "Thing")
	i0.add(&c17Field{Name: "id", Type: "ID!"})
	i0.add(&c17Field{Name: "label", Type: "String"})
	if b.rng.Intn(2) == 0 {
		i0.add(&c17Field{Name: "stamp", Type: "Int!"})
	}
	b.iface = i0.Name
	impl := func(t *c17Type, it *c17Type) {
		for _, x := range t.Impl {
			if x == it.Name {
				return
			}
		}
		t.Impl = append(t.Impl, it.Name)
		ns := t.fieldNames()
		for _, f := range it.Fields {
			if ns.ok(f.Name) {
				cp := *f
				cp.Dirs = nil
				cp.Args = append([]*c17Arg{}, f.Args...)
				if f.Name == "linked" && t == b.obj(0) {
					cp.Type += "!"
				}
				t.Fields = append(t.Fields, &cp)
			}
		}
	}
	if b.row.B("iface") {
		// an interface field with arguments and an interface-typed interface field
		i0.add(&c17Field{Name: "describe", Type: "String", Args: []*c17Arg{{Name: "upper", Type: "Boolean"}}})
		i0.add(&c17Field{Name: "peer", Type: i0.Name})
		// object-typed interface field; one implementor narrows it to non-null (covariance):
		// the generated getter has to convert between value and pointer
		i0.add(&c17Field{Name: "linked", Type: b.obj(len(b.objs) - 1).Name})
		if b.row.B("lists") {
			// list-typed interface fields (slice getters of the generated models)
			i0.add(&c17Field{Name: "relatedNodes", Type: "[" + i0.Name + "!]"})
			i0.add(&c17Field{Name: "aliases", Type: "[String!]"})
			i0.add(&c17Field{Name: "siblings", Type: "[" + b.obj(0).Name + "]"})
		}
	}
	impl(b.obj(0), i0)
	impl(b.obj(1), i0)
	if b.row.B("iface") {
		b.query.add(&c17Field{Name: "node", Type: i0.Name, Args: []*c17Arg{{Name: "id", Type: "ID!"}}})
		b.query.add(&c17Field{Name: "nodes", Type: "[" + i0.Name + "!]!"})
		b.obj(len(b.objs) - 1).add(&c17Field{Name: "holder", Type: i0.Name})
	}
	if b.row.B("ifaceChain") {
		i1 := b.newType("interface", "Tracked", "Owned", "Dated", "Linked")
		i1.Impl = []string{i0.Name}
		for _, f := range i0.Fields {
			cp := *f
			i1.Fields = append(i1.Fields, &cp)
		}
		i1.add(&c17Field{Name: "revision", Type: "Int"})
		b.iface2 = i1.Name
		impl(b.obj(1), i1)
		last := i1
		if b.rng.Intn(2) == 0 {
			i2 := b.newType("interface", "Audited", "Versioned", "Archived")
			i2.Impl = []string{i0.Name, i1.Name}
			for _, f := range i1.Fields {
				cp := *f
				i2.Fields = append(i2.Fields, &cp)
			}
			i2.add(&c17Field{Name: "auditor", Type: "String!"})
			impl(b.obj(1), i2)
			last = i2
		}
		b.query.add(&c17Field{Name: c17LcFirst(last.Name), Type: last.Name})
		b.query.add(&c17Field{Name: c17LcFirst(i1.Name) + "List", Type: "[" + i1.Name + "]"})
	}
}

func (b *c17Builder) unions() {
	u := b.newType("union", "SearchResult", "Hit", "Anything", "Choice")
	u.Members = []string{b.obj(0).Name, b.obj(1).Name}
	if len(b.objs) > 2 && b.rng.Intn(2) == 0 {
		u.Members = append(u.Members, b.obj(2).Name)
	}
	b.union = u.Name
	b.query.add(&c17Field{Name: "search", Type: "[" + u.Name + "!]!", Args: []*c17Arg{{Name: "term", Type: "String!"}}})
	b.query.add(&c17Field{Name: "lucky", Type: u.Name})
	b.obj(len(b.objs) - 1).add(&c17Field{Name: "pick", Type: u.Name})
}

var c17EnumPool = [][]string{
	{"Color", "RED", "GREEN", "BLUE"},
	{"Direction", "NORTH", "EAST", "SOUTH", "WEST"},
	{"Status", "OPEN", "CLOSED"},
	{"Size", "SMALL", "MEDIUM", "LARGE", "X_LARGE"},
}

func (b *c17Builder) newEnum() *c17Type {
	off := b.rng.Intn(len(c17EnumPool))
	for i := range c17EnumPool {
		p := c17EnumPool[(i+off)%len(c17EnumPool)]
		if b.types.take(p[0]) {
			e := b.s.addType(&c17Type{Kind: "enum", Name: p[0]})
			for _, v := range p[1:] {
				e.Vals = append(e.Vals, &c17Val{Name: v})
			}
			return e
		}
	}
	e := b.newType("enum", "Kind")
	e.Vals = []*c17Val{{Name: "ONE"}, {Name: "TWO"}}
	return e
}

func (b *c17Builder) enums() {
	e := b.newEnum()
	b.enum = e.Name
	b.obj(0).add(&c17Field{Name: "kind", Type: e.Name})
	b.obj(1).add(&c17Field{Name: "kindRequired", Type: e.Name + "!"})
	b.query.add(&c17Field{Name: "byKind", Type: b.obj(0).Name, Args: []*c17Arg{{Name: "kind", Type: e.Name + "!"}, {Name: "other", Type: e.Name}}})
	b.query.add(&c17Field{Name: "kindOf", Type: e.Name + "!", Args: []*c17Arg{{Name: "id", Type: "ID!"}}})
}

func (b *c17Builder) inputs() {
	n0 := b.newType("input", "RangeInput", "Bounds", "Window", "PageInput")
	n0.add(&c17Field{Name: "min", Type: "Int"})
	n0.add(&c17Field{Name: "max", Type: "Int!"})
	n0.add(&c17Field{Name: "text", Type: "String"})
	n1 := b.newType("input", "Filter", "Criteria", "NewThing", "QueryInput")
	n1.add(&c17Field{Name: "range", Type: n0.Name})
	n1.add(&c17Field{Name: "rangeRequired", Type: n0.Name + "!"})
	n1.add(&c17Field{Name: "tags", Type: "[String!]"})
	n1.add(&c17Field{Name: "and", Type: "[" + n1.Name + "!]"})
	n1.add(&c17Field{Name: "not", Type: n1.Name})
	n1.add(&c17Field{Name: "ratio", Type: "Float"})
	n1.add(&c17Field{Name: "flag", Type: "Boolean"})
	n1.add(&c17Field{Name: "ident", Type: "ID"})
	if b.enum != "" {
		n1.add(&c17Field{Name: "kind", Type: b.enum})
		n1.add(&c17Field{Name: "kinds", Type: "[" + b.enum + "!]"})
	}
	b.input, b.input2 = n0.Name, n1.Name
	b.query.add(&c17Field{Name: "filter", Type: "[" + b.obj(0).Name + "!]",
		Args: []*c17Arg{{Name: "where", Type: n1.Name}, {Name: "bounds", Type: n0.Name + "!"}, {Name: "more", Type: "[" + n0.Name + "!]"}}})
	b.obj(1).add(&c17Field{Name: "within", Type: "Boolean!", Args: []*c17Arg{{Name: "bounds", Type: n0.Name}}})
}

func (b *c17Builder) mutation() {
	m := b.s.addType(&c17Type{Kind: "object", Name: "Mutation"})
	b.mut = m
	o := b.obj(0)
	m.add(&c17Field{Name: "rename" + o.Name, Type: o.Name + "!", Args: []*c17Arg{{Name: "id", Type: "ID!"}, {Name: "title", Type: "String!"}}})
	m.add(&c17Field{Name: "remove" + o.Name, Type: "Boolean!", Args: []*c17Arg{{Name: "id", Type: "ID!"}}})
	m.add(&c17Field{Name: "touch", Type: "Int"})
	if b.input2 != "" {
		m.add(&c17Field{Name: "create" + o.Name, Type: o.Name, Args: []*c17Arg{{Name: "input", Type: b.input2 + "!"}}})
	}
	if b.union != "" {
		m.add(&c17Field{Name: "choose", Type: b.union})
	}
}

func (b *c17Builder) subscription() {
	s := b.s.addType(&c17Type{Kind: "object", Name: "Subscription"})
	b.sub = s
	o := b.obj(0)
	s.add(&c17Field{Name: c17LcFirst(o.Name) + "Changed", Type: o.Name + "!", Args: []*c17Arg{{Name: "id", Type: "ID"}}})
	s.add(&c17Field{Name: "ticks", Type: "Int!", Args: []*c17Arg{{Name: "every", Type: "Int"}}})
	s.add(&c17Field{Name: "maybe", Type: "String"})
	s.add(&c17Field{Name: "feed", Type: "[" + o.Name + "!]"})
	if b.iface != "" {
		s.add(&c17Field{Name: "nodeChanged", Type: b.iface})
	}
	if b.union != "" {
		s.add(&c17Field{Name: "hits", Type: b.union + "!"})
	}
	if b.enum != "" {
		s.add(&c17Field{Name: "kindChanged", Type: b.enum})
	}
}

func (b *c17Builder) scalars() {
	for _, n := range []string{"Time", "Map", "Any", "Upload"} {
		b.s.addType(&c17Type{Kind: "scalar", Name: n})
	}
	// user scalars bound to Go types: a type with MarshalGQL/UnmarshalGQL, and a
	// basic type with a Marshal/Unmarshal function pair
	mine := b.newType("scalar", "Money", "Token", "Cursor")
	stamp := b.newType("scalar", "Stamp", "Epoch", "Serial")
	b.models[mine.Name] = b.base + "/hand.MineValue"
	b.models[stamp.Name] = b.base + "/hand.StampValue"
	b.needHand["scalars"] = true
	// an unbound custom scalar (modelgen binds it to graphql.String)
	raw := b.newType("scalar", "Opaque", "Blob", "Raw")
	o0, o1 := b.obj(0), b.obj(1)
	o0.add(&c17Field{Name: "createdAt", Type: "Time"})
	o0.add(&c17Field{Name: "updatedAt", Type: "Time!"})
	o0.add(&c17Field{Name: "meta", Type: "Map"})
	o1.add(&c17Field{Name: "payload", Type: "Any"})
	o1.add(&c17Field{Name: "price", Type: mine.Name})
	o1.add(&c17Field{Name: "priceRequired", Type: mine.Name + "!"})
	o1.add(&c17Field{Name: "seq", Type: stamp.Name})
	o1.add(&c17Field{Name: "opaque", Type: raw.Name})
	up := &c17Field{Name: "upload", Type: "Boolean!", Args: []*c17Arg{{Name: "file", Type: "Upload!"}, {Name: "optional", Type: "Upload"},
		{Name: "at", Type: "Time"}, {Name: "price", Type: mine.Name}, {Name: "seq", Type: stamp.Name + "!"}, {Name: "meta", Type: "Map"}, {Name: "anything", Type: "Any"}}}
	if b.mut != nil {
		b.mut.add(up)
	} else {
		b.query.add(up)
	}
	if b.input != "" {
		in := b.s.byName[b.input]
		in.add(&c17Field{Name: "since", Type: "Time"})
		in.add(&c17Field{Name: "extra", Type: "Map"})
		in.add(&c17Field{Name: "cost", Type: mine.Name})
		in.add(&c17Field{Name: "attachment", Type: "Upload"})
	}
}

func (b *c17Builder) lists() {
	o := b.obj(1)
	el := b.obj(0).Name
	shapes := []string{"[%s]", "[%s!]", "[%s]!", "[%s!]!", "[[%s]]", "[[%s!]!]!", "[[%s]!]"}
	add := func(t *c17Type, prefix, elem string, which []int) {
		for _, i := range which {
			t.add(&c17Field{Name: fmt.Sprintf("%s%d", prefix, i), Type: fmt.Sprintf(shapes[i], elem)})
		}
	}
	all := []int{0, 1, 2, 3, 4, 5, 6}
	add(o, "strs", "String", all)
	add(o, "ints", "Int", []int{0, 3, 5})
	add(o, "objs", el, all)
	add(b.query, "all"+el, el, []int{0, 1, 2, 3, 4})
	if b.enum != "" {
		add(o, "enums", b.enum, []int{0, 1, 3, 4})
	}
	if b.iface != "" {
		add(o, "ifaces", b.iface, []int{0, 1, 3, 5})
	}
	if b.union != "" {
		add(o, "unions", b.union, []int{0, 3, 4})
	}
	args := []*c17Arg{{Name: "ids", Type: "[ID!]"}, {Name: "idsRequired", Type: "[ID!]!"}, {Name: "nullableInts", Type: "[Int]"},
		{Name: "matrix", Type: "[[Int!]]"}, {Name: "flags", Type: "[Boolean]!"}}
	if b.enum != "" {
		args = append(args, &c17Arg{Name: "kinds", Type: "[" + b.enum + "]"}, &c17Arg{Name: "kindMatrix", Type: "[[" + b.enum + "!]!]"})
	}
	if b.input != "" {
		args = append(args, &c17Arg{Name: "windows", Type: "[" + b.input + "]"}, &c17Arg{Name: "windowMatrix", Type: "[[" + b.input + "!]]"})
		in := b.s.byName[b.input2]
		in.add(&c17Field{Name: "matrix", Type: "[[Int]]"})
		in.add(&c17Field{Name: "ranges", Type: "[" + b.input + "]!"})
		in.add(&c17Field{Name: "nullableStrs", Type: "[String]"})
	}
	b.query.add(&c17Field{Name: "byLists", Type: "[" + el + "]", Args: args})
	if b.quirk["nestedNullMix"] {
		// [[T]] and [[T!]] of an object type: same Go type, same UniquenessKey
		b.query.add(&c17Field{Name: "innerNonNull", Type: "[[" + el + "!]]"})
	}
	if b.sub != nil {
		b.sub.add(&c17Field{Name: "batches", Type: "[[" + el + "]]"})
	}
	if b.mut != nil {
		b.mut.add(&c17Field{Name: "bulk", Type: "[Boolean!]!", Args: []*c17Arg{{Name: "ids", Type: "[ID!]!"}}})
	}
}

// Go keywords and predeclared identifiers (the statement names them explicitly).
var c17Keywords = []string{"type", "func", "range", "map", "string", "error", "nil", "len", "int",
	"interface", "select", "go", "var", "default", "import", "package", "return", "struct", "chan", "for",
	"switch", "case", "defer", "break", "continue", "const", "else", "fallthrough", "goto", "if",
	"bool", "byte", "any", "new", "make", "append", "iota", "true", "false", "float64", "uint", "cap", "panic", "print"}

func (b *c17Builder) keywordSample(n int) []string {
	out := append([]string{}, c17Keywords[:9]...)
	var rest []string
	for _, k := range c17Keywords[9:] {
		// known defect: the default resolver body is panic(fmt.Errorf(...)); an argument named
		// panic shadows the builtin there
		if k != "panic" {
			rest = append(rest, k)
		}
	}
	b.rng.Shuffle(len(rest), func(i, j int) { rest[i], rest[j] = rest[j], rest[i] })
	out = append(out, rest[:n]...)
	if b.quirk["argNamedPanic"] {
		out = append(out, "panic")
	}
	return out
}

func (b *c17Builder) idKeyword() {
	// as type names
	cands := []string{"type", "func", "range", "string", "error", "int", "len", "nil", "select", "var", "bool", "any", "new"}
	if b.row.S("models") != "gen" {
		// a type named string / int next to the builtin scalars String / Int: autobind looks a
		// schema type up by its name and by its Go name and would bind the scalar to the struct
		// (and a type whose Go name is Type hijacks the introspection type __Type: known defect)
		cands = []string{"func", "range", "error", "len", "nil", "select", "var", "bool", "new"}
	}
	if b.row.B("stub") && !b.quirk["stubKeywordType"] {
		// known defect: stubgen emits `func (r *Stub) <type name>()`, a syntax error for a keyword
		var keep []string
		for _, c := range cands {
			switch c {
			case "type", "func", "range", "select", "var":
			default:
				keep = append(keep, c)
			}
		}
		cands = keep
	}
	b.rng.Shuffle(len(cands), func(i, j int) { cands[i], cands[j] = cands[j], cands[i] })
	if b.quirk["stubKeywordType"] {
		cands = append([]string{"var", "func"}, cands...)
	}
	if b.quirk["autobindIntrospection"] {
		cands = append([]string{"type"}, cands...)
	}
	var kwTypes []*c17Type
	for _, c := range cands {
		if len(kwTypes) >= 3 {
			break
		}
		if b.types.take(c) {
			t := b.s.addType(&c17Type{Kind: "object", Name: c})
			t.add(&c17Field{Name: "id", Type: "ID!"})
			kwTypes = append(kwTypes, t)
		}
	}
	scal := []string{"String", "Int", "Boolean", "Float", "ID", "[Int]", "String!"}
	for _, t := range kwTypes {
		// as field names (struct fields of the generated model)
		for _, k := range b.keywordSample(6) {
			t.add(&c17Field{Name: k, Type: scal[b.rng.Intn(len(scal))]})
		}
		b.query.add(&c17Field{Name: "kw_" + t.Name, Type: t.Name})
		b.query.add(&c17Field{Name: t.Name, Type: t.Name + "!"})
	}
	// as argument names (parameters of resolver methods, keys of the args map)
	var args []*c17Arg
	for _, k := range b.keywordSample(8) {
		args = append(args, &c17Arg{Name: k, Type: scal[b.rng.Intn(len(scal))]})
	}
	kwTypes[0].add(&c17Field{Name: "withArgs", Type: "String", Args: args})
	for _, t := range kwTypes {
		// resolvers of keyword-named types (resolver interface, ResolverRoot method, stub)
		b.resolverFields[t.Name] = append(b.resolverFields[t.Name], t.Fields[1].Name)
	}
	var args2 []*c17Arg
	for _, k := range b.keywordSample(5) {
		args2 = append(args2, &c17Arg{Name: k, Type: scal[b.rng.Intn(len(scal))]})
	}
	b.query.add(&c17Field{Name: "keywordArgs", Type: kwTypes[len(kwTypes)-1].Name, Args: args2})
	if b.mut != nil {
		b.mut.add(&c17Field{Name: "go", Type: "Boolean", Args: []*c17Arg{{Name: "func", Type: "String"}, {Name: "type", Type: "Int!"}}})
	}
	if b.sub != nil {
		b.sub.add(&c17Field{Name: "select", Type: "Int", Args: []*c17Arg{{Name: "chan", Type: "String"}, {Name: "range", Type: "Int"}}})
	}
	if b.input != "" {
		in := b.s.byName[b.input]
		for _, k := range b.keywordSample(3) {
			in.add(&c17Field{Name: k, Type: "String"})
		}
	}
	if b.enum != "" {
		// enum named by a keyword (values cannot be true/false/null in GraphQL)
		if b.types.take("switch") {
			e := b.s.addType(&c17Type{Kind: "enum", Name: "switch"})
			e.Vals = []*c17Val{{Name: "case"}, {Name: "default"}, {Name: "type"}, {Name: "nil"}}
			kwTypes[0].add(&c17Field{Name: "switch", Type: "switch"})
		}
	}
}

func (b *c17Builder) idInitialism() {
	o := b.obj(b.rng.Intn(len(b.objs)))
	names := []string{"url", "userId", "httpApi", "apiUrl", "UUID", "jsonData", "htmlUrl", "ipAddress", "imageUrls", "xmlHttpRequest",
		"ID2", "Id3", "orderIDs", "kycCc", "ccList", "sqlDb", "tcpIp", "URLs", "uuidV4", "someIdValue", "IPv4", "iD5"}
	b.rng.Shuffle(len(names), func(i, j int) { names[i], names[j] = names[j], names[i] })
	for _, n := range names[:10+b.rng.Intn(6)] {
		o.add(&c17Field{Name: n, Type: "String"})
	}
	t := b.newType("object", "ApiKey", "HttpUrl", "UserID", "URLInfo", "JsonBlob", "uuid_record")
	t.add(&c17Field{Name: "id", Type: "ID!"})
	t.add(&c17Field{Name: "apiKeyId", Type: "ID"})
	t.add(&c17Field{Name: "URL", Type: "String"})
	// DELIBERATE: a non-root object whose name templates.ToGo REWRITES (an initialism in non-upper-case form:
	// ImageUrl -> ImageURL, UserId -> UserID, ...) and that has a resolver field, so that the name of its
	// resolver interface, its ResolverRoot accessor, its resolver struct and its stub are all emitted - by
	// different templates that must agree on the spelling (resolver layouts and stub file: pairwise)
	t2 := b.newType("object", "ImageUrl", "UserId", "HttpError", "XmlNode", "SqlRow", "ApiToken")
	t2.add(&c17Field{Name: "id", Type: "ID!"})
	t2.add(&c17Field{Name: "payload", Type: "String"})
	t2.add(&c17Field{Name: "sizeKb", Type: "Int"})
	b.resolverFields[t2.Name] = append(b.resolverFields[t2.Name], "payload")
	b.resolverFields[t.Name] = append(b.resolverFields[t.Name], "URL")
	b.query.add(&c17Field{Name: "latest" + t2.Name, Type: t2.Name})
	b.query.add(&c17Field{Name: c17LcFirst(t.Name), Type: t.Name, Args: []*c17Arg{{Name: "userId", Type: "ID"}, {Name: "URL", Type: "String"}, {Name: "httpApi", Type: "Int"}, {Name: "ip", Type: "String"}, {Name: "Uuid", Type: "ID"}}})
	if b.enum != "" {
		e := b.s.byName[b.enum]
		vn := c17NewNameSet()
		for _, v := range e.Vals {
			vn.take(v.Name)
		}
		for _, v := range []string{"HTTP_API", "user_id", "Url"} {
			if vn.take(v) {
				e.Vals = append(e.Vals, &c17Val{Name: v})
			}
		}
	}
	if b.input != "" {
		in := b.s.byName[b.input]
		in.add(&c17Field{Name: "userId", Type: "ID"})
		in.add(&c17Field{Name: "apiURL", Type: "String"})
	}
}

func (b *c17Builder) idUnderscore() {
	o := b.obj(b.rng.Intn(len(b.objs)))
	names := []string{"_lead", "trail_", "mid__dle", "a_b_c", "snake_case_name", "v1_2", "x_1", "_both_", "__dunderless", "Mixed_Case_Name", "UPPER_SNAKE", "t_", "_u", "camel_Case"}
	b.rng.Shuffle(len(names), func(i, j int) { names[i], names[j] = names[j], names[i] })
	for _, n := range names[:8+b.rng.Intn(5)] {
		if strings.HasPrefix(n, "__") {
			continue // reserved for introspection
		}
		o.add(&c17Field{Name: n, Type: "Int"})
	}
	// Known defect (quirk leadUnderscoreTypeResolver): for a type name that STARTS with an underscore the
	// resolver interface (ucFirst name + "Resolver") and the resolver struct (lcFirst name + "Resolver") are
	// the same identifier, so a resolver field on such a type is left to the probe row; the cover keeps a
	// leading-underscore type WITHOUT resolver fields.
	cands := []string{"snake_type", "Trail_", "Mid__Dle", "UPPER_TYPE"}
	if b.quirk["leadUnderscoreTypeResolver"] {
		cands = []string{"_Lead"}
	} else {
		l := b.newType("object", "_Lead", "_lower_lead", "_Lead_2")
		l.add(&c17Field{Name: "id", Type: "ID!"})
		l.add(&c17Field{Name: "_value", Type: "String"})
		b.query.add(&c17Field{Name: "lead_" + strings.Trim(l.Name, "_"), Type: l.Name})
	}
	t := b.newType("object", cands...)
	t.add(&c17Field{Name: "id", Type: "ID!"})
	t.add(&c17Field{Name: "_value", Type: "String"})
	// DELIBERATE: a resolver field on the type whose name ToGo rewrites (underscores removed), see idInitialism
	t.add(&c17Field{Name: "detail", Type: "String"})
	b.resolverFields[t.Name] = append(b.resolverFields[t.Name], "detail")
	b.query.add(&c17Field{Name: "get_" + strings.Trim(t.Name, "_"), Type: t.Name,
		Args: []*c17Arg{{Name: "_x", Type: "Int"}, {Name: "y_", Type: "Int"}, {Name: "a__b", Type: "String"}, {Name: "snake_arg", Type: "ID"}}})
	if b.enum != "" {
		e := b.s.byName[b.enum]
		vn := c17NewNameSet()
		for _, v := range e.Vals {
			vn.take(v.Name)
		}
		for _, v := range []string{"_LEADING", "TRAILING_", "DOUBLE__UNDER", "lower_snake"} {
			if vn.take(v) {
				e.Vals = append(e.Vals, &c17Val{Name: v})
			}
		}
	}
	if b.input != "" {
		b.s.byName[b.input].add(&c17Field{Name: "_private", Type: "Int"})
		b.s.byName[b.input].add(&c17Field{Name: "with_under_score", Type: "String"})
	}
	if b.mut != nil {
		b.mut.add(&c17Field{Name: "do_it", Type: "Boolean", Args: []*c17Arg{{Name: "dry_run", Type: "Boolean"}}})
	}
}

func (b *c17Builder) idEnumClash() {
	e := b.newType("enum", "Clash", "Casing", "Variant")
	vals := []string{"FOO_BAR", "FooBar", "foo_bar", "fooBar", "FOOBAR", "Foo_Bar", "foobar"}
	b.rng.Shuffle(len(vals), func(i, j int) { vals[i], vals[j] = vals[j], vals[i] })
	for _, v := range vals[:3+b.rng.Intn(4)] {
		e.Vals = append(e.Vals, &c17Val{Name: v})
	}
	e.Vals = append(e.Vals, &c17Val{Name: "OTHER"})
	b.obj(0).add(&c17Field{Name: "clash", Type: e.Name})
	b.query.add(&c17Field{Name: "clashes", Type: "[" + e.Name + "!]", Args: []*c17Arg{{Name: "c", Type: e.Name}}})
}

func (b *c17Builder) idTypeClash() {
	pairs := [][]string{{"my_type", "MyType"}, {"MyThing", "my_thing", "My_Thing"}, {"clash_obj", "ClashObj"}}
	p := pairs[b.rng.Intn(len(pairs))]
	for i, n := range p {
		if !b.types.ok(n) && i == 0 {
			return
		}
		b.types.used[c17Canon(n)] = true
		t := b.s.addType(&c17Type{Kind: "object", Name: n})
		t.add(&c17Field{Name: "id", Type: "ID!"})
		t.add(&c17Field{Name: fmt.Sprintf("only%d", i), Type: "Int"})
		b.query.add(&c17Field{Name: fmt.Sprintf("clashType%d", i), Type: n})
		// each of the colliding types is also a FIELD TYPE of a different other type (modelgen names field
		// types while it walks the schema's type map: the allocation of the numbered name must not depend on it)
		b.obj(i).add(&c17Field{Name: fmt.Sprintf("clashRef%d", i), Type: "[" + n + "!]"})
	}
}

// handWritten adds the types whose Go models are hand-written (models = mixed):
// an object without interfaces / unions, an enum and an input.
func (b *c17Builder) handWritten() {
	b.needHand["mixed"] = true
	if b.types.take("Profile") {
		t := b.s.addType(&c17Type{Kind: "object", Name: "Profile"})
		t.add(&c17Field{Name: "id", Type: "ID!"})
		t.add(&c17Field{Name: "nick", Type: "String"})
		t.add(&c17Field{Name: "age", Type: "Int"})
		t.add(&c17Field{Name: "score", Type: "Float!"})
		t.add(&c17Field{Name: "tags", Type: "[String!]"})
		t.add(&c17Field{Name: "computed", Type: "String!"})
		t.add(&c17Field{Name: "lazy", Type: "Int"})
		t.add(&c17Field{Name: "favourite", Type: b.obj(0).Name})
		t.add(&c17Field{Name: "friend", Type: "Profile"})
		b.query.add(&c17Field{Name: "profile", Type: "Profile", Args: []*c17Arg{{Name: "id", Type: "ID!"}}})
		b.query.add(&c17Field{Name: "profiles", Type: "[Profile!]!"})
	}
	if b.row.B("enum") && b.types.take("Mood") {
		e := b.s.addType(&c17Type{Kind: "enum", Name: "Mood"})
		e.Vals = []*c17Val{{Name: "HAPPY"}, {Name: "SAD"}}
		b.s.byName["Profile"].add(&c17Field{Name: "mood", Type: "Mood"})
		b.query.add(&c17Field{Name: "byMood", Type: "[Profile]", Args: []*c17Arg{{Name: "mood", Type: "Mood!"}}})
	}
	if b.row.B("input") && b.types.take("ProfileInput") {
		in := b.s.addType(&c17Type{Kind: "input", Name: "ProfileInput"})
		in.add(&c17Field{Name: "nick", Type: "String"})
		in.add(&c17Field{Name: "age", Type: "Int!"})
		in.add(&c17Field{Name: "tags", Type: "[String!]"})
		b.query.add(&c17Field{Name: "matchProfile", Type: "Profile", Args: []*c17Arg{{Name: "like", Type: "ProfileInput!"}}})
	}
}

// handInModel adds a type whose Go model is hand-written in the MODEL OUTPUT PACKAGE (next to
// models_gen.go): found through autobind when the row lists that package under autobind
// (autobindModel), bound by an explicit models: entry otherwise.
func (b *c17Builder) handInModel() {
	if !b.types.take("HandKept") {
		return
	}
	b.needHand["inmodel"] = true
	t := b.s.addType(&c17Type{Kind: "object", Name: "HandKept"})
	t.add(&c17Field{Name: "id", Type: "ID!"})
	t.add(&c17Field{Name: "label", Type: "String"})
	t.add(&c17Field{Name: "amount", Type: "Int!"})
	t.add(&c17Field{Name: "total", Type: "Int!"})
	t.add(&c17Field{Name: "related", Type: b.obj(0).Name}) // no Go field: becomes a resolver
	b.query.add(&c17Field{Name: "handKept", Type: "HandKept", Args: []*c17Arg{{Name: "id", Type: "ID!"}}})
	b.query.add(&c17Field{Name: "handKepts", Type: "[HandKept!]!"})
	if !b.row.B("autobindModel") {
		dir, _ := c17ModelPkg(b.row)
		b.models["HandKept"] = b.base + "/" + dir + ".HandKept"
	}
}

// ifaceOrphan adds interfaces without possible types: one that nothing implements (declared ahead of its
// first implementor) and one implemented only by another interface that no object implements; both are
// returned by query fields, so their marshalers / type switches are generated.
func (b *c17Builder) ifaceOrphan() {
	o := b.newType("interface", "Orphan", "Pending", "Unimplemented")
	o.add(&c17Field{Name: "id", Type: "ID!"})
	o.add(&c17Field{Name: "note", Type: "String"})
	b.query.add(&c17Field{Name: "orphan" + o.Name, Type: o.Name})
	b.query.add(&c17Field{Name: "orphans" + o.Name, Type: "[" + o.Name + "!]"})
	p := b.newType("interface", "Auditable", "Stamped", "Tracked")
	p.add(&c17Field{Name: "id", Type: "ID!"})
	p.add(&c17Field{Name: "updatedAt", Type: "String!"})
	ch := b.newType("interface", p.Name+"Child", p.Name+"Sub")
	ch.Impl = []string{p.Name}
	ch.add(&c17Field{Name: "id", Type: "ID!"})
	ch.add(&c17Field{Name: "updatedAt", Type: "String!"})
	ch.add(&c17Field{Name: "by", Type: "String"})
	b.query.add(&c17Field{Name: "last" + p.Name, Type: p.Name})
	b.query.add(&c17Field{Name: "all" + ch.Name, Type: "[" + ch.Name + "]"})
}

func (b *c17Builder) decl(s string) { b.s.DirDecls = append(b.s.DirDecls, s) }

func (b *c17Builder) builtinDirs() {
	b.decl("directive @goField(forceResolver: Boolean, name: String, omittable: Boolean, type: String) on INPUT_FIELD_DEFINITION | FIELD_DEFINITION")
	b.decl("directive @goModel(model: String, models: [String!], forceGenerate: Boolean) on OBJECT | INPUT_OBJECT | SCALAR | ENUM | INTERFACE | UNION")
	b.decl("directive @goTag(key: String!, value: String) on INPUT_FIELD_DEFINITION | FIELD_DEFINITION")
	b.decl("directive @goEnum(value: String) on ENUM_VALUE")
	b.decl("directive @goExtraField(name: String, type: String!, overrideTags: String, description: String) repeatable on OBJECT | INPUT_OBJECT")
	o0, o1 := b.obj(0), b.obj(1)
	// @deprecated
	o0.add(&c17Field{Name: "legacy", Type: "String", Dirs: []string{`@deprecated(reason: "use \"title\"")`}})
	o1.add(&c17Field{Name: "older", Type: "Int", Dirs: []string{"@deprecated"}})
	b.query.add(&c17Field{Name: "oldQuery", Type: "String", Dirs: []string{"@deprecated"},
		Args: []*c17Arg{{Name: "oldArg", Type: "Int", Dirs: []string{`@deprecated(reason: "gone")`}}}})
	if b.enum != "" {
		e := b.s.byName[b.enum]
		e.Vals[len(e.Vals)-1].Dirs = append(e.Vals[len(e.Vals)-1].Dirs, `@deprecated(reason: "old value")`)
	}
	if b.input != "" {
		b.s.byName[b.input].add(&c17Field{Name: "oldField", Type: "String", Dirs: []string{"@deprecated"}})
	}
	// @goField(forceResolver) on a scalar and on an object-typed field; @goField(name)
	o0.add(&c17Field{Name: "forced", Type: "String", Dirs: []string{"@goField(forceResolver: true)"}})
	o0.add(&c17Field{Name: "forcedObj", Type: o1.Name + "!", Dirs: []string{"@goField(forceResolver: true)"}})
	o0.add(&c17Field{Name: "forcedList", Type: "[" + o1.Name + "!]", Dirs: []string{"@goField(forceResolver: true)"},
		Args: []*c17Arg{{Name: "first", Type: "Int"}}})
	o1.add(&c17Field{Name: "renamed", Type: "String", Dirs: []string{`@goField(name: "OtherName")`}})
	o1.add(&c17Field{Name: "notForced", Type: "Int", Dirs: []string{"@goField(forceResolver: false)"}})
	// @goTag
	o1.add(&c17Field{Name: "tagged", Type: "String", Dirs: []string{`@goTag(key: "yaml", value: "tagged_y")`, `@goTag(key: "db")`}})
	// @goExtraField
	o0.Dirs = append(o0.Dirs, `@goExtraField(name: "Secret", type: "string")`,
		`@goExtraField(name: "Counter", type: "*int64", overrideTags: "json:\"-\"", description: "not in the schema")`)
	if b.input != "" {
		in := b.s.byName[b.input]
		in.add(&c17Field{Name: "optional", Type: "String", Dirs: []string{"@goField(omittable: true)"}})
		in.add(&c17Field{Name: "optionalInt", Type: "Int", Dirs: []string{"@goField(omittable: true)", `@goTag(key: "validate", value: "min=1")`}})
		in.add(&c17Field{Name: "notOptional", Type: "Int", Dirs: []string{"@goField(omittable: false)"}})
		in.add(&c17Field{Name: "inRenamed", Type: "Boolean", Dirs: []string{`@goField(name: "InOther")`}})
		// input field resolver
		in.add(&c17Field{Name: "resolvedIn", Type: "String", Dirs: []string{"@goField(forceResolver: true)"}})
		in2 := b.s.byName[b.input2]
		in2.add(&c17Field{Name: "optionalRange", Type: b.input, Dirs: []string{"@goField(omittable: true)"}})
		in2.add(&c17Field{Name: "optionalList", Type: "[Int!]", Dirs: []string{"@goField(omittable: true)"}})
		in2.Dirs = append(in2.Dirs, `@goExtraField(name: "Internal", type: "bool")`)
	}
	// @goModel: an object bound to a hand-written struct
	if b.types.take("External") {
		t := b.s.addType(&c17Type{Kind: "object", Name: "External", Dirs: []string{fmt.Sprintf(`@goModel(model: "%s/hand.Ext")`, b.base)}})
		t.add(&c17Field{Name: "id", Type: "ID!"})
		t.add(&c17Field{Name: "name", Type: "String"})
		t.add(&c17Field{Name: "size", Type: "Int!"})
		t.add(&c17Field{Name: "resolved", Type: "String"})
		b.query.add(&c17Field{Name: "external", Type: "External"})
		b.needHand["ext"] = true
	}
	// @goModel(forceGenerate) makes sense with autobind only; harmless otherwise
	if b.row.S("models") != "bound" && b.types.take("Forced") {
		t := b.s.addType(&c17Type{Kind: "object", Name: "Forced", Dirs: []string{"@goModel(forceGenerate: true)"}})
		t.add(&c17Field{Name: "id", Type: "ID!"})
		t.add(&c17Field{Name: "value", Type: "String"})
		b.query.add(&c17Field{Name: "forcedModel", Type: "Forced"})
	}
	// @goEnum: enum bound to typed Go constants
	// known defect: with use_function_syntax_for_execution_context the lookup tables of a
	// constant-bound enum collide with the (un)marshal functions of the same name
	if b.enum != "" && (!b.row.B("use_function_syntax_for_execution_context") || b.quirk["funcSyntaxGoEnum"]) && b.types.take("Level") {
		e := b.s.addType(&c17Type{Kind: "enum", Name: "Level", Dirs: []string{fmt.Sprintf(`@goModel(model: "%s/hand.Level")`, b.base)}})
		e.Vals = []*c17Val{
			{Name: "LOW", Dirs: []string{fmt.Sprintf(`@goEnum(value: "%s/hand.LevelLow")`, b.base)}},
			{Name: "HIGH", Dirs: []string{fmt.Sprintf(`@goEnum(value: "%s/hand.LevelHigh")`, b.base)}},
		}
		b.query.add(&c17Field{Name: "level", Type: "Level", Args: []*c17Arg{{Name: "atLeast", Type: "Level"}}})
		b.needHand["level"] = true
	}
	// @specifiedBy
	sc := b.newType("scalar", "Email", "Uri", "Isbn")
	sc.Dirs = append(sc.Dirs, `@specifiedBy(url: "https://example.com/spec")`)
	o1.add(&c17Field{Name: "contact", Type: sc.Name})
}

func (b *c17Builder) defaults() {
	args := []*c17Arg{
		{Name: "anInt", Type: "Int", Default: "3"},
		{Name: "negInt", Type: "Int!", Default: "-7"},
		{Name: "aString", Type: "String", Default: `"x\"y\\z"`},
		{Name: "block", Type: "String", Default: `"""block "quoted" text"""`},
		{Name: "aFloat", Type: "Float", Default: "1.5"},
		{Name: "expFloat", Type: "Float!", Default: "1e3"},
		{Name: "aBool", Type: "Boolean", Default: "true"},
		{Name: "anId", Type: "ID", Default: `"id1"`},
		{Name: "intId", Type: "ID", Default: "12"},
		{Name: "aNull", Type: "Int", Default: "null"},
		{Name: "aList", Type: "[Int!]", Default: "[1, 2, 3]"},
		{Name: "emptyList", Type: "[String]", Default: "[]"},
		{Name: "nestedList", Type: "[[Int]]", Default: "[[1], [2, null]]"},
		{Name: "strList", Type: "[String!]!", Default: `["a", "b"]`},
	}
	if b.enum != "" {
		e := b.s.byName[b.enum]
		args = append(args, &c17Arg{Name: "anEnum", Type: e.Name, Default: e.Vals[0].Name},
			&c17Arg{Name: "enumList", Type: "[" + e.Name + "!]", Default: "[" + e.Vals[0].Name + ", " + e.Vals[1].Name + "]"})
	}
	if b.input != "" {
		args = append(args, &c17Arg{Name: "anInput", Type: b.input, Default: "{min: 1, max: 2}"},
			&c17Arg{Name: "inputList", Type: "[" + b.input + "!]", Default: `[{max: 1}, {max: 2, text: "t"}]`},
			&c17Arg{Name: "deepInput", Type: b.input2, Default: `{rangeRequired: {max: 9}, tags: ["a"], and: [{rangeRequired: {max: 1}}]}`})
		in := b.s.byName[b.input]
		in.add(&c17Field{Name: "withDefault", Type: "Int", Default: "5"})
		in.add(&c17Field{Name: "strDefault", Type: "String!", Default: `"dflt"`})
		in.add(&c17Field{Name: "listDefault", Type: "[Int!]", Default: "[1]"})
		in.add(&c17Field{Name: "nullDefault", Type: "Float", Default: "null"})
		in2 := b.s.byName[b.input2]
		in2.add(&c17Field{Name: "rangeDefault", Type: b.input, Default: "{max: 5}"})
		in2.add(&c17Field{Name: "rangeDefault3", Type: b.input, Default: `{min: 1, max: 5, text: "t"}`})
		in2.add(&c17Field{Name: "boolDefault", Type: "Boolean!", Default: "false"})
		if b.enum != "" {
			e := b.s.byName[b.enum]
			in2.add(&c17Field{Name: "kindDefault", Type: e.Name, Default: e.Vals[1].Name})
			in2.add(&c17Field{Name: "kindsDefault", Type: "[" + e.Name + "]", Default: "[" + e.Vals[0].Name + "]"})
		}
	}
	if b.row.B("scalars") {
		args = append(args, &c17Arg{Name: "aMap", Type: "Map", Default: `{a: 1, b: "x"}`},
			&c17Arg{Name: "anAny", Type: "Any", Default: `[1, "two"]`})
	}
	b.rng.Shuffle(len(args), func(i, j int) { args[i], args[j] = args[j], args[i] })
	b.query.add(&c17Field{Name: "withDefaults", Type: "String", Args: args[:len(args)/2]})
	b.obj(0).add(&c17Field{Name: "withDefaults", Type: "Int", Args: args[len(args)/2:]})
	if b.mut != nil {
		b.mut.add(&c17Field{Name: "mutateDefaults", Type: "Boolean", Args: []*c17Arg{{Name: "n", Type: "Int!", Default: "1"}, {Name: "s", Type: "String", Default: `""`}}})
	}
	if b.sub != nil {
		b.sub.add(&c17Field{Name: "every", Type: "Int", Args: []*c17Arg{{Name: "ms", Type: "Int", Default: "1000"}}})
	}
}

func (b *c17Builder) dirType() {
	// argument types of the custom directives use the optional kinds when present
	role := "String"
	roleV := `"admin"`
	if b.enum != "" {
		e := b.s.byName[b.enum]
		role, roleV = e.Name, e.Vals[0].Name
	}
	b.decl("directive @onObject(tag: String) on OBJECT")
	b.decl(fmt.Sprintf("directive @onField(tag: String, n: Int = 3, role: %s) on FIELD_DEFINITION", role))
	b.decl("directive @second on FIELD_DEFINITION | ARGUMENT_DEFINITION | INPUT_FIELD_DEFINITION")
	b.decl("directive @repeat(tag: String!) repeatable on FIELD_DEFINITION")
	b.decl("directive @onArg(min: Int, max: Int = 10) on ARGUMENT_DEFINITION")
	b.decl("directive @onInputField(max: Int, list: [String!]) on INPUT_FIELD_DEFINITION")
	b.decl("directive @onInputObject(tag: String) on INPUT_OBJECT")
	b.decl("directive @onEnum(tag: String) on ENUM")
	b.decl("directive @onEnumValue(tag: String) on ENUM_VALUE")
	b.decl("directive @onInterface(tag: String) on INTERFACE")
	b.decl("directive @onUnion(tag: String) on UNION")
	b.decl("directive @onScalar(tag: String) on SCALAR")
	inArg := ""
	if b.input != "" {
		b.decl(fmt.Sprintf(`directive @withInput(in: %s = {min: 0, max: 9, text: "d"}, ins: [%s!]) on FIELD_DEFINITION | ARGUMENT_DEFINITION`, b.input, b.input))
		inArg = `@withInput(in: {min: 1, max: 3, text: "x"}, ins: [{max: 1}])`
	}
	if b.row.B("idKeyword") {
		if b.quirk["dirArgPredeclared"] {
			b.decl("directive @kwArgs(type: String, func: Int, range: [Int!], string: Boolean) on FIELD_DEFINITION | OBJECT")
		} else {
			// known defect: a directive argument named by a predeclared identifier becomes a local
			// variable of that name; only keywords are sanitised
			b.decl("directive @kwArgs(type: String, func: Int, range: [Int!], select: Boolean) on FIELD_DEFINITION | OBJECT")
		}
	}
	o0, o1 := b.obj(0), b.obj(1)
	o0.Dirs = append(o0.Dirs, `@onObject(tag: "o0")`)
	fd := []string{`@onField(tag: "a")`, fmt.Sprintf(`@onField(tag: "b", n: 7, role: %s)`, roleV), "@second", `@repeat(tag: "r1") @repeat(tag: "r2")`, `@onField @second`}
	if inArg != "" {
		fd = append(fd, inArg)
	}
	if b.row.B("idKeyword") {
		if b.quirk["dirArgPredeclared"] {
			fd = append([]string{`@kwArgs(type: "t", func: 1, range: [1, 2], string: true)`}, fd...)
			o1.add(&c17Field{Name: "shadowed", Type: "String", Dirs: []string{`@kwArgs(string: true)`}})
			b.query.add(&c17Field{Name: "shadowedRoot", Type: "String!", Dirs: []string{`@kwArgs(type: "x", string: false)`}})
		} else {
			fd = append(fd, `@kwArgs(type: "t", func: 1, range: [1, 2], select: true)`)
		}
		o1.Dirs = append(o1.Dirs, `@kwArgs(type: "obj")`)
	}
	b.fdir = fd
	k := 0
	nextFd := func() string { k++; return fd[(k-1)%len(fd)] }
	// on struct-backed fields and on resolver fields of plain objects
	for _, o := range b.objs {
		n := 0
		for _, f := range o.Fields {
			if f.Name == "id" || len(f.Dirs) > 0 && b.rng.Intn(2) == 0 {
				continue
			}
			if n < 3 || b.rng.Intn(4) == 0 {
				f.Dirs = append(f.Dirs, nextFd())
				n++
			}
		}
	}
	// on root fields (query / mutation / subscription have their own template paths)
	for _, root := range []*c17Type{b.query, b.mut, b.sub} {
		if root == nil {
			continue
		}
		for i, f := range root.Fields {
			if i%2 == 0 {
				f.Dirs = append(f.Dirs, nextFd())
			}
			for j, a := range f.Args {
				if (i+j)%2 == 0 {
					a.Dirs = append(a.Dirs, []string{"@onArg(min: 1)", "@onArg(min: 0, max: 5) @second", "@second"}[(i+j)%3])
					if inArg != "" && j == 0 {
						a.Dirs = append(a.Dirs, inArg)
					}
				}
			}
		}
	}
	// arguments of a non-root field
	for _, f := range o0.Fields {
		for j, a := range f.Args {
			if j%2 == 0 {
				a.Dirs = append(a.Dirs, "@onArg(max: 3)")
			}
		}
	}
	if b.iface != "" {
		it := b.s.byName[b.iface]
		it.Dirs = append(it.Dirs, `@onInterface(tag: "i")`)
		it.Fields[len(it.Fields)-1].Dirs = append(it.Fields[len(it.Fields)-1].Dirs, `@onField(tag: "iface")`)
	}
	if b.iface2 != "" {
		it := b.s.byName[b.iface2]
		it.Dirs = append(it.Dirs, `@onInterface(tag: "i2")`)
	}
	if b.union != "" {
		b.s.byName[b.union].Dirs = append(b.s.byName[b.union].Dirs, `@onUnion(tag: "u")`)
	}
	for _, t := range b.s.Types {
		switch t.Kind {
		case "enum":
			if len(t.Dirs) == 0 || b.rng.Intn(2) == 0 {
				t.Dirs = append(t.Dirs, `@onEnum(tag: "e")`)
			}
			t.Vals[0].Dirs = append(t.Vals[0].Dirs, `@onEnumValue(tag: "v")`)
		case "input":
			t.Dirs = append(t.Dirs, `@onInputObject(tag: "in")`)
			for i, f := range t.Fields {
				if i%2 == 0 {
					f.Dirs = append(f.Dirs, []string{"@onInputField(max: 4)", `@onInputField(list: ["a", "b"]) @second`, "@second"}[(i/2)%3])
				}
			}
		case "scalar":
			if t.Name != "Time" && t.Name != "Map" && t.Name != "Any" && t.Name != "Upload" {
				t.Dirs = append(t.Dirs, `@onScalar(tag: "s")`)
			}
		}
	}
	// SCALAR location needs a scalar of the schema's own
	hasOwn := false
	for _, t := range b.s.Types {
		if t.Kind == "scalar" && len(t.Dirs) > 0 {
			hasOwn = true
		}
	}
	if !hasOwn {
		sc := b.newType("scalar", "Label", "Slug", "Hex")
		sc.Dirs = append(sc.Dirs, `@onScalar(tag: "own")`)
		o1.add(&c17Field{Name: "slugValue", Type: sc.Name, Dirs: []string{`@onField(tag: "onscalar")`}})
	}
}

func (b *c17Builder) dirExec() {
	role := "String"
	if b.enum != "" {
		role = b.enum
	}
	b.decl("directive @opQuery(tag: String) on QUERY")
	b.decl(fmt.Sprintf("directive @opMutation(tag: String, role: %s) on MUTATION", role))
	b.decl("directive @opSubscription(limit: Int = 5) on SUBSCRIPTION")
	b.decl("directive @onSelection(if2: Boolean!, note: [String]) on FIELD")
	b.decl("directive @onFragment(tag: String) on FRAGMENT_DEFINITION | FRAGMENT_SPREAD | INLINE_FRAGMENT")
	if b.rng.Intn(2) == 0 {
		b.decl("directive @everywhere(tag: String) on QUERY | MUTATION | SUBSCRIPTION | FIELD | FIELD_DEFINITION | VARIABLE_DEFINITION")
		b.obj(0).Fields[1].Dirs = append(b.obj(0).Fields[1].Dirs, `@everywhere(tag: "fd")`)
	}
	if b.input != "" {
		b.decl(fmt.Sprintf("directive @opWithInput(in: %s!) on QUERY | FIELD", b.input))
	}
	if b.row.B("idKeyword") {
		b.decl("directive @opKeywords(type: String, func: Int, map: Boolean) on QUERY | MUTATION | SUBSCRIPTION | FIELD")
	}
}

func (b *c17Builder) extend() {
	half := func(fs []*c17Field, keep int) ([]*c17Field, []*c17Field) {
		if len(fs) <= keep {
			return fs, nil
		}
		cut := keep + b.rng.Intn(len(fs)-keep)
		return fs[:cut], fs[cut:]
	}
	b.query.Fields, b.query.ExtFields = half(b.query.Fields, 1)
	if b.mut != nil {
		b.mut.Fields, b.mut.ExtFields = half(b.mut.Fields, 1)
	}
	if b.sub != nil && b.rng.Intn(2) == 0 {
		b.sub.Fields, b.sub.ExtFields = half(b.sub.Fields, 1)
	}
	o := b.obj(0)
	o.ExtFields = append(o.ExtFields, &c17Field{Name: "extendedField", Type: "String"},
		&c17Field{Name: "extendedRef", Type: b.obj(1).Name, Args: []*c17Arg{{Name: "depth", Type: "Int"}}})
	if b.enum != "" {
		e := b.s.byName[b.enum]
		e.ExtVals = append(e.ExtVals, &c17Val{Name: "EXTENDED_VALUE"})
	}
	if b.input != "" {
		in := b.s.byName[b.input]
		if in.fieldNames().ok("extendedInput") {
			in.ExtFields = append(in.ExtFields, &c17Field{Name: "extendedInput", Type: "Int"})
		}
	}
	if b.union != "" && len(b.objs) > 2 {
		u := b.s.byName[b.union]
		has := false
		for _, m := range u.Members {
			if m == b.obj(2).Name {
				has = true
			}
		}
		if !has {
			u.ExtMembers = append(u.ExtMembers, b.obj(2).Name)
		}
	}
}

// ---------------------------------------------------------------- SDL text

func c17FieldSDL(f *c17Field, input bool) string {
	var sb strings.Builder
	sb.WriteString("  " + f.Name)
	if len(f.Args) > 0 {
		var as []string
		for _, a := range f.Args {
			s := a.Name + ": " + a.Type
			if a.Default != "" {
				s += " = " + a.Default
			}
			if len(a.Dirs) > 0 {
				s += " " + strings.Join(a.Dirs, " ")
			}
			as = append(as, s)
		}
		if len(as) > 3 {
			sb.WriteString("(\n    " + strings.Join(as, "\n    ") + "\n  )")
		} else {
			sb.WriteString("(" + strings.Join(as, ", ") + ")")
		}
	}
	sb.WriteString(": " + f.Type)
	if input && f.Default != "" {
		sb.WriteString(" = " + f.Default)
	}
	if len(f.Dirs) > 0 {
		sb.WriteString(" " + strings.Join(f.Dirs, " "))
	}
	return sb.String()
}

func c17TypeSDL(t *c17Type, ext bool) string {
	var sb strings.Builder
	kw := map[string]string{"object": "type", "interface": "interface", "union": "union", "enum": "enum", "input": "input", "scalar": "scalar"}[t.Kind]
	if ext {
		sb.WriteString("extend ")
	}
	sb.WriteString(kw + " " + t.Name)
	if !ext && len(t.Impl) > 0 {
		sb.WriteString(" implements " + strings.Join(t.Impl, " & "))
	}
	if !ext && len(t.Dirs) > 0 {
		sb.WriteString(" " + strings.Join(t.Dirs, " "))
	}
	fields, vals, members := t.Fields, t.Vals, t.Members
	if ext {
		fields, vals, members = t.ExtFields, t.ExtVals, t.ExtMembers
	}
	switch t.Kind {
	case "scalar":
		sb.WriteString("\n")
	case "union":
		sb.WriteString(" = " + strings.Join(members, " | ") + "\n")
	case "enum":
		sb.WriteString(" {\n")
		for _, v := range vals {
			sb.WriteString("  " + v.Name)
			if len(v.Dirs) > 0 {
				sb.WriteString(" " + strings.Join(v.Dirs, " "))
			}
			sb.WriteString("\n")
		}
		sb.WriteString("}\n")
	default:
		sb.WriteString(" {\n")
		for _, f := range fields {
			sb.WriteString(c17FieldSDL(f, t.Kind == "input") + "\n")
		}
		sb.WriteString("}\n")
	}
	return sb.String()
}

// SDLFiles distributes the definitions over nfiles schema files (names
// a.graphqls, b.graphqls, ...); extension blocks go to a file other than the
// one holding the definition.
func (b *c17Builder) SDLFiles(nfiles int) map[string]string {
	if nfiles < 2 {
		nfiles = 2
	}
	// placement and order depend on (seed, type name) only, so that a schema that grows
	// (evolutions) keeps every definition in its file
	hv := func(name string, salt string) uint64 {
		h := fnv.New64a()
		_, _ = fmt.Fprintf(h, "%d/%s/%s", b.seed, salt, name)
		return h.Sum64() >> 3
	}
	bufs := make([][]string, nfiles)
	types := append([]*c17Type{}, b.s.Types...)
	sort.SliceStable(types, func(i, j int) bool { return hv(types[i].Name, "order") < hv(types[j].Name, "order") })
	home := map[string]int{}
	for _, t := range types {
		f := int(hv(t.Name, "home") % uint64(nfiles))
		home[t.Name] = f
		bufs[f] = append(bufs[f], c17TypeSDL(t, false))
	}
	for _, t := range types {
		if len(t.ExtFields)+len(t.ExtVals)+len(t.ExtMembers) > 0 {
			f := (home[t.Name] + 1 + int(hv(t.Name, "ext")%uint64(nfiles-1))) % nfiles
			bufs[f] = append(bufs[f], c17TypeSDL(t, true))
		}
	}
	decls := append([]string{}, b.s.DirDecls...)
	sort.Strings(decls)
	df := int(hv("", "decls") % uint64(nfiles))
	out := map[string]string{}
	for i := 0; i < nfiles; i++ {
		var sb strings.Builder
		if i == df && len(decls) > 0 {
			sb.WriteString(strings.Join(decls, "\n") + "\n\n")
		}
		sb.WriteString(strings.Join(bufs[i], "\n"))
		if sb.Len() == 0 {
			sb.WriteString("# (no definitions in this file)\n")
		}
		out[string(rune('a'+i))+".graphqls"] = sb.String()
	}
	return out
}
