package projgen

import (
	"encoding/json"
	"fmt"
	"os"
	"sort"
	"strconv"
	"strings"
	"sync"
	"sync/atomic"

	"verifharness/vlib"
)

// REdge is one labelled edge of the Project state graph, decoded.
type REdge struct {
	Key string // S|A|T
	S   string
	T   string
	A   PAction
	Raw json.RawMessage // the action record as printed
	SSt *PState
	TSt *PState
}

// Graph is the labelled state graph TLC exported (EmitEdge / EmitInit).
type Graph struct {
	Raw    []vlib.Edge
	Edges  map[string]*REdge   // by key
	Out    map[string][]*REdge // by source state
	States map[string]*PState
	Inits  []string
}

func canon(r json.RawMessage) string {
	var v any
	_ = json.Unmarshal(r, &v)
	b, _ := json.Marshal(v)
	return string(b)
}

// LoadGraph decodes the lines TLC printed.
func LoadGraph(printed []string) (*Graph, error) {
	raw, err := vlib.ParseEdges(printed)
	if err != nil {
		return nil, err
	}
	g := &Graph{Raw: raw, Edges: map[string]*REdge{}, Out: map[string][]*REdge{}, States: map[string]*PState{}}
	st := func(s string) (*PState, error) {
		if p, ok := g.States[s]; ok {
			return p, nil
		}
		p := &PState{}
		if err := json.Unmarshal([]byte(s), p); err != nil {
			return nil, fmt.Errorf("state: %v: %.200s", err, s)
		}
		g.States[s] = p
		return p, nil
	}
	for _, e := range raw {
		re := &REdge{S: e.S, T: e.T, Key: e.S + "|" + string(e.A) + "|" + e.T, Raw: e.A}
		if err := json.Unmarshal(e.A, &re.A); err != nil {
			return nil, fmt.Errorf("action: %v: %.200s", err, e.A)
		}
		if re.SSt, err = st(e.S); err != nil {
			return nil, err
		}
		if re.TSt, err = st(e.T); err != nil {
			return nil, err
		}
		g.Edges[re.Key] = re
		g.Out[e.S] = append(g.Out[e.S], re)
	}
	seen := map[string]bool{}
	for _, ln := range printed {
		if len(ln) < 2 || ln[0] != '"' {
			continue
		}
		inner, err := strconv.Unquote(ln)
		if err != nil || !strings.HasPrefix(inner, `{"init"`) {
			continue
		}
		var rec struct {
			Init json.RawMessage `json:"init"`
		}
		if err := json.Unmarshal([]byte(inner), &rec); err != nil || rec.Init == nil {
			continue
		}
		s := canon(rec.Init)
		if !seen[s] {
			seen[s] = true
			g.Inits = append(g.Inits, s)
			if _, err := st(s); err != nil {
				return nil, err
			}
		}
	}
	sort.Strings(g.Inits)
	if len(g.Inits) == 0 {
		return nil, fmt.Errorf("no initial states printed")
	}
	return g, nil
}

// GenerateEdge returns the Generate edge leaving state s (nil if s was not expanded).
func (g *Graph) GenerateEdge(s string) *REdge {
	for _, e := range g.Out[s] {
		if e.A.Name == "Generate" {
			return e
		}
	}
	return nil
}

// Trie of paths: shared prefixes are executed once.
type Trie struct {
	Edge     *REdge
	Children []*Trie
	index    map[string]*Trie
}

func (t *Trie) insert(path []*REdge) {
	n := t
	for _, e := range path {
		if n.index == nil {
			n.index = map[string]*Trie{}
		}
		c := n.index[e.Key]
		if c == nil {
			c = &Trie{Edge: e}
			n.index[e.Key] = c
			n.Children = append(n.Children, c)
		}
		n = c
	}
}

// Count returns (edges, Generate edges) of the trie.
func (t *Trie) Count() (int, int) {
	n, g := 0, 0
	for _, c := range t.Children {
		cn, cg := c.Count()
		n += cn + 1
		g += cg
		if c.Edge.A.Name == "Generate" {
			g++
		}
	}
	return n, g
}

// CoverTries computes, per initial state, edge-covering paths
// (vlib.CoverPaths) and merges them into a prefix tree.
func (g *Graph) CoverTries(maxLen int) (map[string]*Trie, int) {
	out := map[string]*Trie{}
	npaths := 0
	for _, init := range g.Inits {
		paths := vlib.CoverPaths(g.Raw, init, maxLen)
		t := &Trie{}
		for _, p := range paths {
			rp := make([]*REdge, len(p))
			for i, e := range p {
				rp[i] = g.Edges[e.S+"|"+string(e.A)+"|"+e.T]
			}
			t.insert(rp)
		}
		npaths += len(paths)
		out[init] = t
	}
	return out, npaths
}

// PathTrie builds a trie from explicit paths starting at init.
func PathTrie(paths [][]*REdge) *Trie {
	t := &Trie{}
	for _, p := range paths {
		t.insert(p)
	}
	return t
}

// StepResult is what one replayed edge produced on the real tree.
type StepResult struct {
	Edge  *REdge
	Path  []*REdge // edges from the initial state up to and including Edge
	Init  string
	Obs   *Obs
	Diffs []string // differences between the real tree and the state TLC printed
	Gen   *GenOutcome
	Conc  *Conc
}

// Handler decides verdicts. Generate runs the generator for a Generate edge
// (so that C18 can substitute its multi-process protocol); Step inspects the
// result of any edge and says whether the subtree below may be replayed
// (false = the real tree no longer is in the state the remaining path assumes).
type Handler interface {
	Generate(c *Conc, e *REdge, path []*REdge) GenOutcome
	Step(r *StepResult) bool
}

type ReplayStats struct {
	Edges, Generates, Skipped, Inits int64
}

// Replayer replays tries in parallel worker directories.
type Replayer struct {
	G       *Graph
	H       Handler
	Name    string // GenRoot name prefix
	Seed    int64
	Pairs   []string
	Files   []string
	Workers int
	Budget  int64 // max Generate runs (0 = unlimited)
	Stats   ReplayStats
	mu      sync.Mutex
	Errs    []string // harness-side problems (Infra)
}

func (r *Replayer) infra(format string, a ...any) {
	r.mu.Lock()
	r.Errs = append(r.Errs, fmt.Sprintf(format, a...))
	r.mu.Unlock()
}

type job struct {
	init string
	sub  *Trie
}

// Run replays every trie (init -> trie). Top-level subtrees are distributed over the workers.
func (r *Replayer) Run(tries map[string]*Trie) {
	var jobs []job
	inits := make([]string, 0, len(tries))
	for i := range tries {
		inits = append(inits, i)
	}
	sort.Strings(inits)
	for _, init := range inits {
		for _, c := range tries[init].Children {
			jobs = append(jobs, job{init, c})
		}
	}
	// biggest subtrees first
	sort.SliceStable(jobs, func(i, j int) bool {
		a, _ := jobs[i].sub.Count()
		b, _ := jobs[j].sub.Count()
		return a > b
	})
	ch := make(chan job)
	var wg sync.WaitGroup
	w := r.Workers
	if w < 1 {
		w = 1
	}
	for k := 0; k < w; k++ {
		wg.Add(1)
		go func(k int) {
			defer wg.Done()
			name := fmt.Sprintf("%s_w%d", r.Name, k)
			root := GenRoot(name)
			conc := NewConc(root, ImportBase(name), r.Seed+int64(k)*1000, r.Pairs, r.Files)
			initSnap := map[string]Snapshot{}
			for j := range ch {
				snap, ok := initSnap[j.init]
				if !ok {
					var err error
					snap, err = r.setupInit(conc, j.init)
					if err != nil {
						r.infra("initial generation (%s): %v", name, err)
						continue
					}
					initSnap[j.init] = snap
				} else if err := conc.Restore(snap); err != nil {
					r.infra("restore: %v", err)
					continue
				}
				r.walk(conc, j.init, j.sub, nil)
			}
			_ = os.RemoveAll(root)
		}(k)
	}
	for _, j := range jobs {
		ch <- j
	}
	close(ch)
	wg.Wait()
}

// setupInit creates the freshly generated project of an initial state and
// checks that it projects onto that state.
func (r *Replayer) setupInit(c *Conc, init string) (Snapshot, error) {
	st := r.G.States[init]
	if err := c.Create(st); err != nil {
		return nil, err
	}
	g := RunGen(c.Root, GenOpts{Explicit: true})
	atomic.AddInt64(&r.Stats.Inits, 1)
	res := &StepResult{Edge: &REdge{A: PAction{Name: "InitialGenerate"}, T: init, TSt: st, SSt: st, S: init}, Init: init, Gen: &g, Conc: c}
	res.Obs = c.Project()
	if !g.OK() {
		res.Diffs = append(res.Diffs, "generate: "+g.Class)
	}
	res.Diffs = append(res.Diffs, st.DiffObs(res.Obs)...)
	if !r.H.Step(res) {
		return nil, fmt.Errorf("initial state not reached: %v\n%s", res.Diffs, g.Stderr)
	}
	return c.Snapshot()
}

func (r *Replayer) walk(c *Conc, init string, n *Trie, prefix []*REdge) {
	path := append(append([]*REdge{}, prefix...), n.Edge)
	cont := r.exec(c, init, n.Edge, path)
	if !cont {
		cn, _ := n.Count()
		atomic.AddInt64(&r.Stats.Skipped, int64(cn))
		return
	}
	if len(n.Children) == 0 {
		return
	}
	var snap Snapshot
	if len(n.Children) > 1 {
		var err error
		if snap, err = c.Snapshot(); err != nil {
			r.infra("snapshot: %v", err)
			return
		}
	}
	for i, ch := range n.Children {
		if i > 0 {
			if err := c.Restore(snap); err != nil {
				r.infra("restore: %v", err)
				return
			}
		}
		r.walk(c, init, ch, path)
	}
}

// Apply performs the action of edge e on the concrete project (everything but Generate).
func Apply(c *Conc, e *REdge) error {
	a := e.A
	switch a.Name {
	case "EditBody":
		m := MethRec{Body: a.E.Body, Doc: a.E.Doc, Named: a.E.Named, Uses: e.SSt.Meth[a.F][a.P].Uses}
		return c.SetMethod(a.F, a.P, m)
	case "AddHelper":
		return c.AddHelperDecls(a.F, a.H)
	case "AddImport":
		if err := c.AddImportSpec(a.F, a.I); err != nil {
			return err
		}
		return c.SetMethod(a.F, a.P, e.TSt.Meth[a.F][a.P])
	case "AddField", "RemoveField", "RenameField", "MoveField", "RemoveType":
		return c.WriteSchema(e.TSt)
	}
	return fmt.Errorf("unknown action %s", a.Name)
}

func (r *Replayer) exec(c *Conc, init string, e *REdge, path []*REdge) bool {
	res := &StepResult{Edge: e, Path: path, Init: init, Conc: c}
	if e.A.Name == "Generate" {
		if r.Budget > 0 && atomic.LoadInt64(&r.Stats.Generates) >= r.Budget {
			return false
		}
		atomic.AddInt64(&r.Stats.Generates, 1)
		g := r.H.Generate(c, e, path)
		res.Gen = &g
	} else if err := Apply(c, e); err != nil {
		r.infra("apply %s: %v", e.A, err)
		return false
	}
	atomic.AddInt64(&r.Stats.Edges, 1)
	res.Obs = c.Project()
	res.Diffs = e.TSt.DiffObs(res.Obs)
	return r.H.Step(res)
}

// PathString renders a path for reports.
func PathString(path []*REdge) string {
	var s []string
	for _, e := range path {
		s = append(s, e.A.String())
	}
	return strings.Join(s, " ; ")
}

// ReplayFromPath is ReplayObject for a path without a step result.
func ReplayFromPath(c *Conc, path []*REdge) map[string]any {
	init := ""
	if len(path) > 0 {
		init = path[0].S
	}
	return ReplayObject(&StepResult{Path: path, Init: init, Conc: c})
}

// LoadReplay rebuilds graph and path from a recorded scenario.
func LoadReplay(file string) (*Graph, []*REdge, int64, []string, []string, error) {
	b, err := os.ReadFile(file)
	if err != nil {
		return nil, nil, 0, nil, nil, err
	}
	var rec struct {
		Scenario struct {
			Seed  int64             `json:"seed"`
			Init  json.RawMessage   `json:"init"`
			Edges []json.RawMessage `json:"edges"`
			Pairs []string          `json:"pairs"`
			Files []string          `json:"files"`
		} `json:"scenario"`
	}
	if err := json.Unmarshal(b, &rec); err != nil || len(rec.Scenario.Edges) == 0 {
		return nil, nil, 0, nil, nil, fmt.Errorf("not a Project scenario: %v", err)
	}
	quote := func(v any) string {
		j, _ := json.Marshal(v)
		q, _ := json.Marshal(string(j))
		return string(q)
	}
	printed := []string{quote(map[string]json.RawMessage{"init": rec.Scenario.Init})}
	for _, e := range rec.Scenario.Edges {
		printed = append(printed, quote(e))
	}
	g, err := LoadGraph(printed)
	if err != nil {
		return nil, nil, 0, nil, nil, err
	}
	var p []*REdge
	cur := g.Inits[0]
	for range rec.Scenario.Edges {
		if len(g.Out[cur]) == 0 {
			break
		}
		e := g.Out[cur][0]
		p = append(p, e)
		cur = e.T
	}
	return g, p, rec.Scenario.Seed, rec.Scenario.Pairs, rec.Scenario.Files, nil
}

// ReplayObject is the scenario recorded with a violation.
func ReplayObject(r *StepResult) map[string]any {
	acts := []json.RawMessage{}
	for _, e := range r.Path {
		b, _ := json.Marshal(e.A)
		acts = append(acts, b)
	}
	files := map[string]string{}
	if r.Conc != nil {
		if snap, err := r.Conc.Snapshot(); err == nil {
			for k, v := range snap {
				if strings.HasSuffix(k, ".graphqls") || strings.HasSuffix(k, "resolvers.go") || strings.HasSuffix(k, "resolver.go") || k == "gqlgen.yml" {
					files[k] = string(v)
				}
			}
		}
	}
	edges := []map[string]json.RawMessage{}
	for _, e := range r.Path {
		edges = append(edges, map[string]json.RawMessage{"s": json.RawMessage(e.S), "a": e.Raw, "t": json.RawMessage(e.T)})
	}
	return map[string]any{"init": json.RawMessage(r.Init), "path": PathString(r.Path), "actions": acts, "edges": edges,
		"seed": r.Conc.Seed, "pairs": r.Conc.Pairs, "files": r.Conc.Files, "files_after": files}
}

// SampleTries picks n Generate edges at random (seeded) among all edges
// reachable from the initial states and returns, per initial state, the
// prefix tree of the BFS-shortest histories that end with them.
//
// Stratified: one edge per class (resolver/exec layout, edits since the last
// run, deviations firing) first, in seeded order, then uniformly at random.
func (g *Graph) SampleTries(n int, seed int64) (map[string]*Trie, int) {
	type cand struct {
		init string
		e    *REdge
	}
	parents := map[string]map[string]*REdge{}
	var cands []cand
	for _, init := range g.Inits {
		par := map[string]*REdge{init: nil}
		queue := []string{init}
		for len(queue) > 0 {
			s := queue[0]
			queue = queue[1:]
			for _, e := range g.Out[s] {
				if _, ok := par[e.T]; !ok {
					par[e.T] = e
					queue = append(queue, e.T)
				}
				if e.A.Name == "Generate" {
					cands = append(cands, cand{init, e})
				}
			}
		}
		parents[init] = par
	}
	sort.Slice(cands, func(i, j int) bool {
		if cands[i].init != cands[j].init {
			return cands[i].init < cands[j].init
		}
		return cands[i].e.Key < cands[j].e.Key
	})
	// seeded Fisher-Yates with a splitmix generator (no dependency on math/rand's algorithm)
	x := uint64(seed)*0x9E3779B97F4A7C15 + 0x1234567
	next := func() uint64 {
		x += 0x9E3779B97F4A7C15
		z := x
		z = (z ^ (z >> 30)) * 0xBF58476D1CE4E5B9
		z = (z ^ (z >> 27)) * 0x94D049BB133111EB
		return z ^ (z >> 31)
	}
	for i := len(cands) - 1; i > 0; i-- {
		j := int(next() % uint64(i+1))
		cands[i], cands[j] = cands[j], cands[i]
	}
	if n > len(cands) {
		n = len(cands)
	}
	// stratify: stable partition putting the first edge of every class in front
	classOf := func(c cand) string {
		st := c.e.SSt
		return st.Cfg.Rl + "/" + st.Cfg.El + "|" + st.Dirty + "|" + strings.Join(c.e.A.Devs, ",")
	}
	seenClass := map[string]bool{}
	var front, back []cand
	for _, c := range cands {
		if k := classOf(c); !seenClass[k] {
			seenClass[k] = true
			front = append(front, c)
		} else {
			back = append(back, c)
		}
	}
	// the classes on which the stale-file deviation fires need the longest histories and are rare: first
	sort.SliceStable(front, func(i, j int) bool {
		return strings.Contains(classOf(front[i]), "staleFile") && !strings.Contains(classOf(front[j]), "staleFile")
	})
	cands = append(front, back...)
	out := map[string]*Trie{}
	for _, c := range cands[:n] {
		var rev []*REdge
		for s := c.e.S; s != c.init; {
			pe := parents[c.init][s]
			rev = append(rev, pe)
			s = pe.S
		}
		path := make([]*REdge, 0, len(rev)+1)
		for i := len(rev) - 1; i >= 0; i-- {
			path = append(path, rev[i])
		}
		path = append(path, c.e)
		if out[c.init] == nil {
			out[c.init] = &Trie{}
		}
		out[c.init].insert(path)
	}
	return out, n
}
