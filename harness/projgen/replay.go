package projgen

import (
	"encoding/json"
	"fmt"
	"os"
	"sort"
	"strconv"
	"strings"
	"sync"
	"sync/atomic"
	"time"

	"verifharness/vlib"
)

// REdge is one labelled edge of the Project state graph, decoded.
type REdge struct {
	Key string // S|A|T
	S   string
	T   string
	A   PAction
	Raw json.RawMessage // the action record as printed
	SSt *PState
	TSt *PState
}

// Graph is the labelled state graph TLC exported (EmitEdge / EmitInit).
type Graph struct {
	Raw    []vlib.Edge
	Edges  map[string]*REdge   // by key
	Out    map[string][]*REdge // by source state
	States map[string]*PState
	Inits  []string
}

func canon(r json.RawMessage) string {
	var v any
	_ = json.Unmarshal(r, &v)
	b, _ := json.Marshal(v)
	return string(b)
}

// LoadGraph decodes the lines TLC printed.
func LoadGraph(printed []string) (*Graph, error) {
	raw, err := vlib.ParseEdges(printed)
	if err != nil {
		return nil, err
	}
	g := &Graph{Raw: raw, Edges: map[string]*REdge{}, Out: map[string][]*REdge{}, States: map[string]*PState{}}
	st := func(s string) (*PState, error) {
		if p, ok := g.States[s]; ok {
			return p, nil
		}
		p := &PState{}
		if err := json.Unmarshal([]byte(s), p); err != nil {
			return nil, fmt.Errorf("state: %v: %.200s", err, s)
		}
		g.States[s] = p
		return p, nil
	}
	for _, e := range raw {
		re := &REdge{S: e.S, T: e.T, Key: e.S + "|" + string(e.A) + "|" + e.T, Raw: e.A}
		if err := json.Unmarshal(e.A, &re.A); err != nil {
			return nil, fmt.Errorf("action: %v: %.200s", err, e.A)
		}
		if re.SSt, err = st(e.S); err != nil {
			return nil, err
		}
		if re.TSt, err = st(e.T); err != nil {
			return nil, err
		}
		g.Edges[re.Key] = re
		g.Out[e.S] = append(g.Out[e.S], re)
	}
	seen := map[string]bool{}
	for _, ln := range printed {
		if len(ln) < 2 || ln[0] != '"' {
			continue
		}
		inner, err := strconv.Unquote(ln)
		if err != nil || !strings.HasPrefix(inner, `{"init"`) {
			continue
		}
		var rec struct {
			Init json.RawMessage `json:"init"`
		}
		if err := json.Unmarshal([]byte(inner), &rec); err != nil || rec.Init == nil {
			continue
		}
		s := canon(rec.Init)
		if !seen[s] {
			seen[s] = true
			g.Inits = append(g.Inits, s)
			if _, err := st(s); err != nil {
				return nil, err
			}
		}
	}
	sort.Strings(g.Inits)
	if len(g.Inits) == 0 {
		return nil, fmt.Errorf("no initial states printed")
	}
	return g, nil
}

// GenerateEdge returns the Generate edge leaving state s (nil if s was not expanded).
func (g *Graph) GenerateEdge(s string) *REdge {
	for _, e := range g.Out[s] {
		if e.A.Name == "Generate" {
			return e
		}
	}
	return nil
}

// Trie of paths: shared prefixes are executed once.
type Trie struct {
	Edge     *REdge
	Children []*Trie
	index    map[string]*Trie
}

func (t *Trie) insert(path []*REdge) {
	n := t
	for _, e := range path {
		if n.index == nil {
			n.index = map[string]*Trie{}
		}
		c := n.index[e.Key]
		if c == nil {
			c = &Trie{Edge: e}
			n.index[e.Key] = c
			n.Children = append(n.Children, c)
		}
		n = c
	}
}

// Count returns (edges, Generate edges) of the trie.
func (t *Trie) Count() (int, int) {
	n, g := 0, 0
	for _, c := range t.Children {
		cn, cg := c.Count()
		n += cn + 1
		g += cg
		if c.Edge.A.Name == "Generate" {
			g++
		}
	}
	return n, g
}

// CoverTries computes, per initial state, edge-covering paths
// (vlib.CoverPaths) and merges them into a prefix tree.
func (g *Graph) CoverTries(maxLen int) (map[string]*Trie, int) {
	out := map[string]*Trie{}
	npaths := 0
	for _, init := range g.Inits {
		paths := vlib.CoverPaths(g.Raw, init, maxLen)
		t := &Trie{}
		for _, p := range paths {
			rp := make([]*REdge, len(p))
			for i, e := range p {
				rp[i] = g.Edges[e.S+"|"+string(e.A)+"|"+e.T]
			}
			t.insert(rp)
		}
		npaths += len(paths)
		out[init] = t
	}
	return out, npaths
}

// PathTrie builds a trie from explicit paths starting at init.
func PathTrie(paths [][]*REdge) *Trie {
	t := &Trie{}
	for _, p := range paths {
		t.insert(p)
	}
	return t
}

// ---- recording observed steps -------------------------------------------------------
//
// The tours TLC generates (from the model of the tree as known_findings.d
// currently describes it) are used as ACTION SCRIPTS only. The replayer keeps
// its own current abstract state: the resolver part is always the go/parser
// projection of the real tree, schema / dirty are its bookkeeping of the user
// edits it performed. Every executed step is recorded as (pre, action, post);
// the verdict is given afterwards by TLC (spec/ProjectStep.tla) on the
// observed pre/post states against the statements' postconditions - never by
// comparing with the state a model of the implementation predicted. A
// difference from the tour's predicted state is only counted (Drift).

// StepRec is one step executed on the real tree.
type StepRec struct {
	ID    string
	Kind  string // init | edit | gen | probe
	Pre   *PState
	Act   PAction
	Post  *PState
	Obs   *Obs
	Gen   *GenOutcome
	Path  []*REdge // tour edges executed up to and including this step
	Init  string
	Drift bool              // post differs from the state the tour's model predicted (statistics only)
	Files map[string]string // SDL + resolver files after the step (gen / probe / init)
	Extra map[string]any
	Seed  int64
	Pairs []string
	SFiles []string
	Names map[string]string // abstract pair -> concrete Type.field
	V     *Verdict
}

// Verdict is what spec/ProjectStep.tla printed for a step.
type Verdict struct {
	Kind      string              `json:"kind"`
	Viol      []string            `json:"viol"`
	Explained bool                `json:"explained"`
	D         []string            `json:"D"`
	Blame     map[string][]string `json:"-"`
	IdealEq   bool                `json:"idealEq"`
	Same      bool                `json:"same"`
}

// Handler plugs the property-specific execution into the replay.
type Handler interface {
	// RunGenerate executes a Generate step on the real tree (C18 substitutes its multi-process protocol).
	RunGenerate(c *Conc, pre *PState, path []*REdge) GenOutcome
	// WantBuild: compile the package before and after this Generate step (compiledBefore => compiledAfter).
	WantBuild(pre *PState) bool
	// AfterGenerate is called while the tree is in the post-state of rec (init or gen); it may add records (C18: second run).
	AfterGenerate(r *Replayer, c *Conc, rec *StepRec)
}

type ReplayStats struct {
	Edges, Generates, Skipped, Inits, Drift, Inapplicable int64
}

// Replayer replays tries in parallel worker directories.
type Replayer struct {
	G       *Graph
	H       Handler
	Name    string // GenRoot name prefix
	Seed    int64
	Pairs   []string
	Files   []string
	Workers int
	Budget  int64 // max Generate runs (0 = unlimited)
	Stats   ReplayStats
	mu      sync.Mutex
	Errs    []string // harness-side problems (Infra)
	Recs    []*StepRec
	nextID  int64
}

func (r *Replayer) infra(format string, a ...any) {
	r.mu.Lock()
	r.Errs = append(r.Errs, fmt.Sprintf(format, a...))
	r.mu.Unlock()
}

// Add records a step (thread-safe) and gives it an id.
func (r *Replayer) Add(rec *StepRec) {
	rec.ID = fmt.Sprintf("%s-%d", r.Name, atomic.AddInt64(&r.nextID, 1))
	r.mu.Lock()
	r.Recs = append(r.Recs, rec)
	r.mu.Unlock()
}

type job struct {
	init string
	sub  *Trie
}

// Run replays every trie (init -> trie). Top-level subtrees are distributed over the workers.
func (r *Replayer) Run(tries map[string]*Trie) {
	var jobs []job
	inits := make([]string, 0, len(tries))
	for i := range tries {
		inits = append(inits, i)
	}
	sort.Strings(inits)
	for _, init := range inits {
		for _, c := range tries[init].Children {
			jobs = append(jobs, job{init, c})
		}
	}
	sort.SliceStable(jobs, func(i, j int) bool {
		a, _ := jobs[i].sub.Count()
		b, _ := jobs[j].sub.Count()
		return a > b
	})
	ch := make(chan job)
	var wg sync.WaitGroup
	w := r.Workers
	if w < 1 {
		w = 1
	}
	type initState struct {
		snap  Snapshot
		st    *PState
		names map[string]pairName
		types map[string]string
	}
	for k := 0; k < w; k++ {
		wg.Add(1)
		go func(k int) {
			defer wg.Done()
			name := fmt.Sprintf("%s_w%d", r.Name, k)
			root := GenRoot(name)
			conc := NewConc(root, ImportBase(name), r.Seed+int64(k)*1000, r.Pairs, r.Files)
			inits := map[string]*initState{}
			for j := range ch {
				is, ok := inits[j.init]
				if !ok {
					conc.SetNames(j.init)
					snap, st := r.setupInit(conc, j.init)
					is = &initState{snap, st, conc.names, conc.typeNames}
					inits[j.init] = is
				} else if is.st != nil {
					conc.names, conc.typeNames = is.names, is.types
					if err := conc.Restore(is.snap); err != nil {
						r.infra("restore: %v", err)
						continue
					}
				}
				if is.st == nil {
					cn, _ := j.sub.Count()
					atomic.AddInt64(&r.Stats.Skipped, int64(cn)+1)
					continue
				}
				r.walk(conc, j.init, j.sub, nil, is.st)
			}
			_ = os.RemoveAll(root)
		}(k)
	}
	for _, j := range jobs {
		ch <- j
	}
	close(ch)
	wg.Wait()
}

func (c *Conc) ReportFiles() map[string]string {
	files := map[string]string{}
	if snap, err := c.Snapshot(); err == nil {
		for k, v := range snap {
			if strings.HasSuffix(k, ".graphqls") || strings.HasSuffix(k, "resolvers.go") || strings.HasSuffix(k, "resolver.go") || k == "gqlgen.yml" {
				files[k] = string(v)
			}
		}
	}
	return files
}

// WithObs returns a copy of the bookkeeping state b whose resolver part is the observation o.
func WithObs(b *PState, o *Obs) *PState {
	n := *b
	n.Meth, n.Root, n.Helpers, n.Imports, n.Warn, n.Ok, n.Enc = o.Meth, o.Root, o.Helpers, o.Imports, o.Warn, o.Ok, o.Enc
	n.Gen = nil
	return &n
}

// setupInit creates the freshly generated project of an initial state. The
// fresh project must project onto that state (Init of Project.tla is the
// definition of a fresh project); the record carries the differences.
func (r *Replayer) setupInit(c *Conc, init string) (Snapshot, *PState) {
	st := r.G.States[init]
	if err := c.Create(st); err != nil {
		r.infra("create project: %v", err)
		return nil, nil
	}
	g := RunGen(c.Root, GenOpts{Explicit: true})
	atomic.AddInt64(&r.Stats.Inits, 1)
	obs := c.Project()
	book := *st
	book.Comp, book.Dirty = "unk", "clean"
	post := WithObs(&book, obs)
	rec := &StepRec{Kind: "init", Act: PAction{Name: "InitialGenerate"}, Post: post, Obs: obs, Gen: &g, Init: init,
		Files: c.ReportFiles(), Seed: c.Seed, Pairs: c.Pairs, SFiles: c.Files, Names: c.Names(), Extra: map[string]any{}}
	diffs := []string{}
	if !g.OK() {
		diffs = append(diffs, "generate: "+g.Class)
	}
	diffs = append(diffs, st.DiffObs(obs)...)
	rec.Extra["initDiffs"] = diffs
	r.Add(rec)
	if len(diffs) > 0 {
		return nil, nil
	}
	r.H.AfterGenerate(r, c, rec)
	snap, err := c.Snapshot()
	if err != nil {
		r.infra("snapshot: %v", err)
		return nil, nil
	}
	return snap, post
}

func (r *Replayer) walk(c *Conc, init string, n *Trie, prefix []*REdge, cur *PState) {
	path := append(append([]*REdge{}, prefix...), n.Edge)
	next := r.exec(c, init, n.Edge, path, cur)
	if next == nil {
		cn, _ := n.Count()
		atomic.AddInt64(&r.Stats.Skipped, int64(cn))
		return
	}
	if len(n.Children) == 0 {
		return
	}
	var snap Snapshot
	if len(n.Children) > 1 {
		var err error
		if snap, err = c.Snapshot(); err != nil {
			r.infra("snapshot: %v", err)
			return
		}
	}
	for i, ch := range n.Children {
		if i > 0 {
			if err := c.Restore(snap); err != nil {
				r.infra("restore: %v", err)
				return
			}
		}
		r.walk(c, init, ch, path, next)
	}
}

var dirtyRank = map[string]int{"clean": 0, "go": 1, "adds": 2, "other": 3}

func maxDirty(a, b string) string {
	if dirtyRank[a] >= dirtyRank[b] {
		return a
	}
	return b
}

func hasTok(l []string, t string) bool {
	for _, x := range l {
		if x == t {
			return true
		}
	}
	return false
}

// Book applies the harness-side bookkeeping of user action a to state s
// (schema, texists, dirty); ok = false when the action is not applicable to s.
func (s *PState) Book(a PAction, typeOf func(string) string) (*PState, bool) {
	n := *s
	n.Schema = map[string]string{}
	for k, v := range s.Schema {
		n.Schema[k] = v
	}
	n.Texists = map[string]bool{}
	for k, v := range s.Texists {
		n.Texists[k] = v
	}
	n.Comp = "unk"
	has := func(f, p string) bool { m, ok := s.Meth[f][p]; return ok && m.exists() }
	anyMeth := func(f string) bool {
		for _, m := range s.Meth[f] {
			if m.exists() {
				return true
			}
		}
		return false
	}
	live := func(p string) bool { return s.Schema[p] != "none" && s.Schema[p] != "" }
	if !s.Ok {
		return nil, false
	}
	switch a.Name {
	case "EditBody":
		if !has(a.F, a.P) || a.E == nil {
			return nil, false
		}
		m := s.Meth[a.F][a.P]
		if m.Body == a.E.Body && m.Doc == a.E.Doc && m.Named == a.E.Named {
			return nil, false
		}
		n.Dirty = maxDirty(s.Dirty, "go")
	case "AddHelper":
		if !anyMeth(a.F) || hasTok(s.Helpers[a.F], a.H) {
			return nil, false
		}
		n.Dirty = maxDirty(s.Dirty, "go")
	case "AddImport":
		if !has(a.F, a.P) || hasTok(s.Meth[a.F][a.P].Uses, a.I) {
			return nil, false
		}
		n.Dirty = maxDirty(s.Dirty, "go")
	case "Resave":
		if !anyMeth(a.F) || s.Enc[a.F] == a.En {
			return nil, false
		}
		n.Dirty = maxDirty(s.Dirty, "go")
	case "EditRoot":
		if a.Rt == "" || s.root() == a.Rt || s.root() == "none" {
			return nil, false
		}
		n.Dirty = maxDirty(s.Dirty, "go")
	case "AddField":
		if live(a.P) {
			return nil, false
		}
		n.Schema[a.P] = a.Sf
		if t := typeOf(a.P); t != "Query" {
			n.Texists[t] = true
		}
		n.Dirty = maxDirty(s.Dirty, "adds")
	case "RemoveField":
		if !live(a.P) {
			return nil, false
		}
		n.Schema[a.P] = "none"
		n.Dirty = "other"
	case "RenameField":
		if !live(a.P) || live(a.Q) || a.P == a.Q || typeOf(a.P) != typeOf(a.Q) {
			return nil, false
		}
		n.Schema[a.Q], n.Schema[a.P] = s.Schema[a.P], "none"
		n.Dirty = "other"
	case "MoveField":
		if !live(a.P) || s.Schema[a.P] == a.Sf {
			return nil, false
		}
		n.Schema[a.P] = a.Sf
		n.Dirty = "other"
	case "RemoveType":
		if !s.Texists[a.T] {
			return nil, false
		}
		for p := range n.Schema {
			if typeOf(p) == a.T {
				n.Schema[p] = "none"
			}
		}
		n.Texists[a.T] = false
		n.Dirty = "other"
	case "Generate":
		n.Dirty = "clean"
	default:
		return nil, false
	}
	return &n, true
}

func (s *PState) root() string {
	if s.Root == "" {
		return "gen"
	}
	return s.Root
}

func pairType(p string) string { t, _ := splitPair(p); return t }

// applyEdit performs user action a on the concrete project in state cur.
func applyEdit(c *Conc, cur, next *PState, a PAction) error {
	switch a.Name {
	case "EditBody":
		m := MethRec{Body: a.E.Body, Doc: a.E.Doc, Named: a.E.Named, Uses: cur.Meth[a.F][a.P].Uses}
		return c.SetMethod(a.F, a.P, m)
	case "AddHelper":
		return c.AddHelperDecls(a.F, a.H)
	case "AddImport":
		if err := c.AddImportSpec(a.F, a.I); err != nil {
			return err
		}
		m := cur.Meth[a.F][a.P]
		m.Uses = sortedCopy(append(append([]string{}, m.Uses...), a.I))
		return c.SetMethod(a.F, a.P, m)
	case "Resave":
		return c.Resave(a.F, a.En)
	case "EditRoot":
		return c.SetRoot(a.Rt)
	case "AddField", "RemoveField", "RenameField", "MoveField", "RemoveType":
		return c.WriteSchema(next)
	}
	return fmt.Errorf("unknown action %s", a.Name)
}

// unknownTokens: the projection met text it cannot map back (damaged user code): the history cannot be continued.
func unknownTokens(o *Obs) bool {
	if strings.HasPrefix(o.Root, "?") {
		return true
	}
	for _, ms := range o.Meth {
		for _, m := range ms {
			if strings.HasPrefix(m.Body, "?") || strings.HasPrefix(m.Doc, "?") {
				return true
			}
		}
	}
	for _, l := range o.Helpers {
		for _, h := range l {
			if strings.HasPrefix(h, "?") {
				return true
			}
		}
	}
	for _, l := range o.Imports {
		for _, h := range l {
			if strings.HasPrefix(h, "?") {
				return true
			}
		}
	}
	for _, l := range o.Warn {
		for _, w := range l {
			if strings.HasPrefix(w.K, "?") || strings.HasPrefix(w.Body, "?") || strings.HasPrefix(w.ID, "?") {
				return true
			}
		}
	}
	return false
}

func addsOnly(s *PState) bool {
	if s.Dirty == "other" {
		return false
	}
	for _, h := range s.Helpers {
		if len(h) > 0 {
			return false
		}
	}
	return s.root() == "gen"
}

// exec performs one tour edge as an action on the real tree; returns the new current state (nil = stop this history).
func (r *Replayer) exec(c *Conc, init string, e *REdge, path []*REdge, cur *PState) *PState {
	a := e.A
	book, ok := cur.Book(a, pairType)
	if !ok {
		atomic.AddInt64(&r.Stats.Inapplicable, 1)
		return nil // the real tree is not where the tour's model expected it: the action does not apply (drift)
	}
	rec := &StepRec{Kind: "edit", Act: a, Path: path, Init: init, Seed: c.Seed, Pairs: c.Pairs, SFiles: c.Files, Names: c.Names(), Extra: map[string]any{}}
	pre := *cur
	pre.Comp = "unk"
	if a.Name == "Generate" {
		if r.Budget > 0 && atomic.LoadInt64(&r.Stats.Generates) >= r.Budget {
			return nil
		}
		atomic.AddInt64(&r.Stats.Generates, 1)
		rec.Kind = "gen"
		build := r.H.WantBuild(cur)
		if build {
			if out, err := GoBuild(c.Root); err == nil {
				pre.Comp = "yes"
			} else if strings.Contains(err.Error(), "timeout after") {
				r.infra("go build timeout")
				return nil
			} else {
				pre.Comp = "no"
				rec.Extra["buildBefore"] = tailStr(out, 600)
			}
		}
		g := r.H.RunGenerate(c, cur, path)
		rec.Gen = &g
		if g.Class == "timeout" || g.Class == "crash" {
			r.infra("generator %s: %s\n%s", g.Class, PathString(path), tailStr(g.Stderr, 1200))
			return nil
		}
	} else if err := applyEdit(c, cur, book, a); err != nil {
		r.infra("apply %s: %v", a, err)
		return nil
	}
	atomic.AddInt64(&r.Stats.Edges, 1)
	rec.Pre = &pre
	obs := c.Project()
	rec.Obs = obs
	var post *PState
	if obs.Ok {
		post = WithObs(book, obs)
	} else { // a file does not parse: the resolver part cannot be observed
		b := *book
		b.Meth, b.Root, b.Helpers, b.Imports, b.Warn, b.Ok, b.Gen, b.Enc = cur.Meth, cur.Root, cur.Helpers, cur.Imports, cur.Warn, false, nil, cur.Enc
		post = &b
	}
	if a.Name == "Generate" && pre.Comp == "yes" && obs.Ok {
		if out, err := GoBuild(c.Root); err == nil {
			post.Comp = "yes"
		} else if strings.Contains(err.Error(), "timeout after") {
			r.infra("go build timeout")
			return nil
		} else {
			post.Comp = "no"
			rec.Extra["buildAfter"] = tailStr(out, 1200)
		}
	} else if a.Name == "Generate" && !obs.Ok {
		post.Comp = "no"
	}
	rec.Post = post
	if len(e.TSt.DiffObs(obs)) > 0 {
		rec.Drift = true
		atomic.AddInt64(&r.Stats.Drift, 1)
	}
	if a.Name == "Generate" {
		rec.Files = c.ReportFiles()
	}
	r.Add(rec)
	if !obs.Ok || unknownTokens(obs) || (rec.Gen != nil && !rec.Gen.OK()) {
		return nil
	}
	if a.Name == "Generate" {
		r.H.AfterGenerate(r, c, rec)
	}
	cont := *post
	cont.Comp = "unk"
	return &cont
}

func tailStr(s string, n int) string {
	if len(s) > n {
		return "..." + s[len(s)-n:]
	}
	return s
}

// PathString renders a path for reports.
func PathString(path []*REdge) string {
	var s []string
	for _, e := range path {
		s = append(s, e.A.String())
	}
	return strings.Join(s, " ; ")
}

// LoadReplay rebuilds graph and path from a recorded scenario.
func LoadReplay(file string) (*Graph, []*REdge, int64, []string, []string, error) {
	b, err := os.ReadFile(file)
	if err != nil {
		return nil, nil, 0, nil, nil, err
	}
	var rec struct {
		Scenario struct {
			Seed  int64             `json:"seed"`
			Init  json.RawMessage   `json:"init"`
			Edges []json.RawMessage `json:"edges"`
			Pairs []string          `json:"pairs"`
			Files []string          `json:"files"`
		} `json:"scenario"`
	}
	if err := json.Unmarshal(b, &rec); err != nil || len(rec.Scenario.Edges) == 0 {
		return nil, nil, 0, nil, nil, fmt.Errorf("not a Project scenario: %v", err)
	}
	quote := func(v any) string {
		j, _ := json.Marshal(v)
		q, _ := json.Marshal(string(j))
		return string(q)
	}
	printed := []string{quote(map[string]json.RawMessage{"init": rec.Scenario.Init})}
	for _, e := range rec.Scenario.Edges {
		printed = append(printed, quote(e))
	}
	g, err := LoadGraph(printed)
	if err != nil {
		return nil, nil, 0, nil, nil, err
	}
	var p []*REdge
	cur := g.Inits[0]
	for range rec.Scenario.Edges {
		if len(g.Out[cur]) == 0 {
			break
		}
		e := g.Out[cur][0]
		p = append(p, e)
		cur = e.T
	}
	return g, p, rec.Scenario.Seed, rec.Scenario.Pairs, rec.Scenario.Files, nil
}

// ReplayObject is the scenario recorded with a violation.
func ReplayObject(rec *StepRec) map[string]any {
	edges := []map[string]json.RawMessage{}
	for _, e := range rec.Path {
		edges = append(edges, map[string]json.RawMessage{"s": json.RawMessage(e.S), "a": e.Raw, "t": json.RawMessage(e.T)})
	}
	o := map[string]any{"path": PathString(rec.Path), "edges": edges, "step": rec.Kind,
		"seed": rec.Seed, "pairs": rec.Pairs, "files": rec.SFiles, "files_after": rec.Files, "names": rec.Names}
	if rec.Init != "" {
		o["init"] = json.RawMessage(rec.Init)
	}
	if rec.V != nil {
		o["verdict"] = map[string]any{"violated": rec.V.Viol, "explained_by": rec.V.D, "explained": rec.V.Explained, "blame": rec.V.Blame}
	}
	return o
}

// ---- verdicts: spec/ProjectStep.tla --------------------------------------------------

func stateJSON(s *PState) map[string]any {
	nn := func(l []string) []string {
		if l == nil {
			return []string{}
		}
		return l
	}
	meth := map[string]any{}
	for f, ms := range s.Meth {
		mm := map[string]any{}
		for p, m := range ms {
			mm[p] = map[string]any{"body": m.Body, "doc": m.Doc, "named": m.Named, "uses": nn(m.Uses)}
		}
		meth[f] = mm
	}
	sets := func(in map[string][]string) map[string]any {
		o := map[string]any{}
		for f, l := range in {
			o[f] = nn(l)
		}
		return o
	}
	warn := map[string]any{}
	for f, l := range s.Warn {
		ws := []any{}
		for _, w := range l {
			ws = append(ws, map[string]any{"k": w.K, "id": w.ID, "body": w.Body, "named": w.Named, "uses": nn(w.Uses)})
		}
		warn[f] = ws
	}
	comp := s.Comp
	if comp == "" {
		comp = "unk"
	}
	return map[string]any{"schema": s.Schema, "texists": s.Texists, "cfg": map[string]any{"rl": s.Cfg.Rl, "el": s.Cfg.El, "ab": s.Cfg.ab()},
		"meth": meth, "root": s.root(), "helpers": sets(s.Helpers), "imports": sets(s.Imports), "warn": warn, "ok": s.Ok, "comp": comp, "dirty": s.Dirty, "enc": encOf(s)}
}

func encOf(s *PState) map[string]string {
	o := map[string]string{}
	for f := range s.Meth {
		o[f] = "lf"
		if e, ok := s.Enc[f]; ok && e != "" {
			o[f] = e
		}
	}
	return o
}

func actionJSON(a PAction) map[string]any {
	o := map[string]any{"name": a.Name, "f": a.F, "p": a.P, "q": a.Q, "t": a.T, "h": a.H, "i": a.I, "sf": a.Sf, "en": a.En, "rt": a.Rt}
	e := map[string]any{"body": "-", "doc": "-", "named": false}
	if a.E != nil {
		e = map[string]any{"body": a.E.Body, "doc": a.E.Doc, "named": a.E.Named}
	}
	o["e"] = e
	return o
}

// JudgeSteps lets TLC (spec/ProjectStep.tla, MC_ProjectStep<npairs>.cfg)
// evaluate every recorded edit / gen / probe step; fills rec.V.
func JudgeSteps(recs []*StepRec, npairs int, scratch string) (states, generated int64, err error) {
	var todo []*StepRec
	for _, r := range recs {
		if r.Kind != "init" && r.Pre != nil && r.Post != nil {
			todo = append(todo, r)
		}
	}
	const chunk = 2500
	nchunks := (len(todo) + chunk - 1) / chunk
	byID := map[string]*StepRec{}
	for _, r := range todo {
		byID[r.ID] = r
	}
	var mu sync.Mutex
	var firstErr error
	Parallel(nchunks, 3, func(ci int) {
		lo, hi := ci*chunk, (ci+1)*chunk
		if hi > len(todo) {
			hi = len(todo)
		}
		var sb strings.Builder
		for _, r := range todo[lo:hi] {
			act := r.Act
			if r.Kind == "probe" {
				act = PAction{Name: "Generate"}
			}
			line, _ := json.Marshal(map[string]any{"id": r.ID, "pre": stateJSON(r.Pre), "a": actionJSON(act), "post": stateJSON(r.Post)})
			sb.Write(line)
			sb.WriteByte('\n')
		}
		res, err := vlib.RunTLC(vlib.TLCOpts{Module: "MC_ProjectStep", Config: fmt.Sprintf("MC_ProjectStep%d.cfg", npairs), Workers: 1,
			Scratch: fmt.Sprintf("%s/judge%d", scratch, ci), Timeout: 20 * time.Minute, HeapGB: 6,
			Data: map[string][]byte{"steps.ndjson": []byte(sb.String())}})
		mu.Lock()
		defer mu.Unlock()
		if err != nil {
			firstErr = err
			return
		}
		if !res.OK {
			firstErr = fmt.Errorf("TLC error in ProjectStep:\n%s", tailStr(res.Output, 3000))
			return
		}
		states += res.Distinct
		generated += res.Generated
		for _, ln := range res.Printed {
			if len(ln) < 2 || ln[0] != '"' {
				continue
			}
			inner, err := strconv.Unquote(ln)
			if err != nil {
				continue
			}
			var v struct {
				ID string `json:"id"`
				Verdict
				BlameRaw json.RawMessage `json:"blame"`
			}
			if err := json.Unmarshal([]byte(inner), &v); err != nil || v.ID == "" {
				continue
			}
			vd := v.Verdict
			vd.Blame = map[string][]string{}
			if len(v.BlameRaw) > 0 && v.BlameRaw[0] == '{' {
				_ = json.Unmarshal(v.BlameRaw, &vd.Blame)
			}
			if r := byID[v.ID]; r != nil {
				r.V = &vd
			}
		}
	})
	return states, generated, firstErr
}

// SampleTries picks n Generate edges at random (seeded) among all edges
// reachable from the initial states and returns, per initial state, the
// prefix tree of the BFS-shortest histories that end with them.
//
// Stratified: one edge per class (resolver/exec layout, edits since the last
// run, deviations firing) first, in seeded order, then uniformly at random.
func (g *Graph) SampleTries(n int, seed int64) (map[string]*Trie, int) {
	type cand struct {
		init string
		e    *REdge
	}
	parents := map[string]map[string]*REdge{}
	var cands []cand
	for _, init := range g.Inits {
		par := map[string]*REdge{init: nil}
		queue := []string{init}
		for len(queue) > 0 {
			s := queue[0]
			queue = queue[1:]
			for _, e := range g.Out[s] {
				if _, ok := par[e.T]; !ok {
					par[e.T] = e
					queue = append(queue, e.T)
				}
				if e.A.Name == "Generate" {
					cands = append(cands, cand{init, e})
				}
			}
		}
		parents[init] = par
	}
	sort.Slice(cands, func(i, j int) bool {
		if cands[i].init != cands[j].init {
			return cands[i].init < cands[j].init
		}
		return cands[i].e.Key < cands[j].e.Key
	})
	// seeded Fisher-Yates with a splitmix generator (no dependency on math/rand's algorithm)
	x := uint64(seed)*0x9E3779B97F4A7C15 + 0x1234567
	next := func() uint64 {
		x += 0x9E3779B97F4A7C15
		z := x
		z = (z ^ (z >> 30)) * 0xBF58476D1CE4E5B9
		z = (z ^ (z >> 27)) * 0x94D049BB133111EB
		return z ^ (z >> 31)
	}
	for i := len(cands) - 1; i > 0; i-- {
		j := int(next() % uint64(i+1))
		cands[i], cands[j] = cands[j], cands[i]
	}
	if n > len(cands) {
		n = len(cands)
	}
	// stratify: stable partition putting the first edge of every class in front
	classOf := func(c cand) string {
		st := c.e.SSt
		return st.Cfg.Rl + "/" + st.Cfg.El + "/" + st.Cfg.ab() + "|" + st.Dirty + "|" + strings.Join(c.e.A.Devs, ",")
	}
	seenClass := map[string]bool{}
	var front, back []cand
	for _, c := range cands {
		if k := classOf(c); !seenClass[k] {
			seenClass[k] = true
			front = append(front, c)
		} else {
			back = append(back, c)
		}
	}
	// the classes on which the stale-file deviation fires need the longest histories and are rare: first;
	// then, deliberately, two classes of every configuration whose autobind list contains the model output
	// package (every Generate of such a history runs on a tree holding the previous models_gen.go)
	rank := map[string]int{}
	perCfg := map[string]int{}
	for _, c := range front {
		k := classOf(c)
		switch {
		case strings.Contains(k, "staleFile"):
			rank[k] = 0
		case c.e.SSt.Cfg.ab() != "none" && perCfg[k[:strings.Index(k, "|")]] < 2:
			perCfg[k[:strings.Index(k, "|")]]++
			rank[k] = 1
		default:
			rank[k] = 2
		}
	}
	sort.SliceStable(front, func(i, j int) bool { return rank[classOf(front[i])] < rank[classOf(front[j])] })
	cands = append(front, back...)
	out := map[string]*Trie{}
	for _, c := range cands[:n] {
		var rev []*REdge
		for s := c.e.S; s != c.init; {
			pe := parents[c.init][s]
			rev = append(rev, pe)
			s = pe.S
		}
		path := make([]*REdge, 0, len(rev)+1)
		for i := len(rev) - 1; i >= 0; i-- {
			path = append(path, rev[i])
		}
		path = append(path, c.e)
		if out[c.init] == nil {
			out[c.init] = &Trie{}
		}
		out[c.init].insert(path)
	}
	return out, n
}
