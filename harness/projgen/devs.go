package projgen

import (
	"fmt"
	"os"
	"path/filepath"
	"regexp"
	"sort"
	"strings"

	"verifharness/vlib"
)

// DevFinding ties a named deviation of spec/Project.tla to the finding key
// under which its violations are reported.
type DevFinding struct {
	Prop string // property whose statement the deviation breaks
	Key  string
	What string
}

var DevFindings = map[string]DevFinding{
	"warnNesting":   {"C19", "C19:warn-block-nested-comment", "leftover code containing a /* */ comment is wrapped in the /* */ WARNING block: the regenerated resolver file does not parse and is written unformatted"},
	"aliasSuffix":   {"C19", "C19:import-alias-suffix-of-path-dropped", "an aliased import whose alias is a suffix of the import path (but not the package name) loses its alias and is pruned: the kept method body no longer compiles"},
	"aliasReserved": {"C19", "C19:import-alias-of-template-reserved-path-dropped", "an aliased import of a path that resolver.gotpl reserves itself (errors, fmt, io, time, ...) is dropped"},
	"blank2":        {"C19", "C19:second-blank-import-dropped", "the second blank import of a resolver file is dropped"},
	"docDirective":  {"C19", "C19:doc-comment-directives-dropped", "directive lines (//nolint:..., //go:...) of a resolver's doc comment are dropped"},
	"staleFile":     {"C18", "C18:stale-resolver-file-second-run-changes-output", "a resolver file whose schema file lost its last resolver field is left behind; the next run with nothing edited finds the method declared twice and changes the other file"},
	"rootLeftover":  {"C18", "C18:single-file-root-type-moves-into-warning-block-on-rerun", "single-file layout: the existing declaration of the root resolver type is not recognised as carried over; every run repeats it in a WARNING block and emits a fresh `type Resolver struct{}` (a re-run with nothing edited changes the file; a customised root struct moves into the comment - repeated there, not lost)"},
}

// CurrentDevs lists the deviations whose finding is listed OPEN in
// known_findings.d: the model used to GENERATE tours describes the tree as the
// findings currently describe it. Marking a finding fixed stops expecting it.
func CurrentDevs() []string {
	open := map[string]bool{}
	for _, prop := range []string{"C18", "C19"} {
		for _, k := range vlib.LoadKnown(prop) {
			if k.Status == "open" {
				open[k.Key] = true
			}
		}
	}
	var out []string
	for d, f := range DevFindings {
		if open[f.Key] {
			out = append(out, d)
		}
	}
	sort.Strings(out)
	return out
}

var reCurDevs = regexp.MustCompile(`(?m)^MCCurDevs\s*==.*$`)

// SpecOverride returns MC_Project.tla with MCCurDevs set to CurrentDevs()
// (for vlib.TLCOpts.Data).
func SpecOverride() (map[string][]byte, []string, error) {
	b, err := os.ReadFile(filepath.Join(vlib.SpecDir(), "MC_Project.tla"))
	if err != nil {
		return nil, nil, err
	}
	devs := CurrentDevs()
	q := make([]string, len(devs))
	for i, d := range devs {
		q[i] = fmt.Sprintf("%q", d)
	}
	if !reCurDevs.Match(b) {
		return nil, nil, fmt.Errorf("MC_Project.tla: MCCurDevs not found")
	}
	nb := reCurDevs.ReplaceAll(b, []byte("MCCurDevs    == {"+strings.Join(q, ", ")+"}"))
	return map[string][]byte{"MC_Project.tla": nb}, devs, nil
}

// PropsOf: which statements' postconditions each check judges.
var PropsOf = map[string][]string{
	"C19": {"MethodsKept", "StubsComplete", "ImportsKept", "DeclsKept", "FilesParse", "CompileKept"},
	"C18": {"Idempotent"},
}

// Findings turns a verdict into finding keys for check prop: nil = the
// observed step satisfies the statements. A violated property explained by
// named deviations is keyed by the deviations blamed for it; an unexplained
// one gets a generic key naming the violated properties.
func (v *Verdict) Findings(prop, layout string) (keys []string, violated []string) {
	want := map[string]bool{}
	for _, p := range PropsOf[prop] {
		want[p] = true
	}
	for _, p := range v.Viol {
		if want[p] {
			violated = append(violated, p)
		}
	}
	sort.Strings(violated)
	if len(violated) == 0 {
		return nil, nil
	}
	set := map[string]bool{}
	if v.Explained {
		for _, p := range violated {
			for _, d := range v.Blame[p] {
				if f, ok := DevFindings[d]; ok {
					set[f.Key] = true
				} else {
					set[prop+":deviation:"+d] = true
				}
			}
		}
	}
	if len(set) == 0 {
		set[prop+":violates:"+strings.Join(violated, "+")+":"+layout] = true
	}
	for k := range set {
		keys = append(keys, k)
	}
	sort.Strings(keys)
	return keys, violated
}

// WhatOf returns the description of a finding key ("" if it is not a named deviation).
func WhatOf(key string) string {
	for _, f := range DevFindings {
		if f.Key == key {
			return f.What
		}
	}
	return ""
}
