package projgen

import (
	"bytes"
	"encoding/json"
	"fmt"
	"go/ast"
	"go/format"
	"go/parser"
	"go/token"
	"os"
	"path/filepath"
	"regexp"
	"sort"
	"strings"
)

// ---- abstract state (the projection TLC prints, spec/Project.tla Proj) -------

type MethRec struct {
	Body  string   `json:"body"`
	Doc   string   `json:"doc"`
	Named bool     `json:"named"`
	Uses  []string `json:"uses"`
}

type WarnTok struct {
	K     string   `json:"k"`
	ID    string   `json:"id"`
	Body  string   `json:"body"`
	Named bool     `json:"named"`
	Uses  []string `json:"uses"`
}

type PCfg struct {
	Rl string `json:"rl"`
	El string `json:"el"`
	// Ab: `autobind:` lists the model output package itself: "none" | "model" (the package only holds a doc
	// file next to models_gen.go) | "hand" (it also holds a hand-written model a schema type binds to)
	Ab string `json:"ab"`
}

func (c PCfg) ab() string {
	if c.Ab == "" {
		return "none"
	}
	return c.Ab
}

type PState struct {
	Schema  map[string]string             `json:"schema"`
	Texists map[string]bool               `json:"texists"`
	Cfg     PCfg                          `json:"cfg"`
	Meth    map[string]map[string]MethRec `json:"meth"`
	Root    string                        `json:"root"` // declaration of the root resolver type in resolver.go: "gen" | root token
	Helpers map[string][]string           `json:"helpers"`
	Imports map[string][]string           `json:"imports"`
	Warn    map[string][]WarnTok          `json:"warn"`
	Gen     json.RawMessage               `json:"gen"`
	Ok      bool                          `json:"ok"`
	Comp    string                        `json:"comp"`
	Dirty   string                        `json:"dirty"`
	Enc     map[string]string             `json:"enc"`
}

type Ideal struct {
	Meth    map[string]map[string]MethRec `json:"meth"`
	Root    string                        `json:"root"`
	Helpers map[string][]string           `json:"helpers"`
	Imports map[string][]string           `json:"imports"`
	Warn    map[string][]WarnTok          `json:"warn"`
	Ok      bool                          `json:"ok"`
	Comp    string                        `json:"comp"`
}

type PAction struct {
	Name     string   `json:"name"`
	F        string   `json:"f"`
	P        string   `json:"p"`
	Q        string   `json:"q"`
	T        string   `json:"t"`
	H        string   `json:"h"`
	I        string   `json:"i"`
	Sf       string   `json:"sf"`
	En       string   `json:"en"`
	Rt       string   `json:"rt"`
	E        *MethRec `json:"e"`
	Devs     []string `json:"devs"`
	Regen    []string `json:"regen"`
	AddsOnly bool     `json:"addsOnly"`
	WasClean bool     `json:"wasClean"`
	Ideal    *Ideal   `json:"ideal"`
}

func (a PAction) String() string {
	switch a.Name {
	case "EditBody":
		return fmt.Sprintf("EditBody(%s,%s,%s/%s/named=%v)", a.F, a.P, a.E.Body, a.E.Doc, a.E.Named)
	case "AddHelper":
		return fmt.Sprintf("AddHelper(%s,%s)", a.F, a.H)
	case "Resave":
		return fmt.Sprintf("Resave(%s,%s)", a.F, a.En)
	case "EditRoot":
		return fmt.Sprintf("EditRoot(%s)", a.Rt)
	case "AddImport":
		return fmt.Sprintf("AddImport(%s,%s,%s)", a.F, a.P, a.I)
	case "AddField", "MoveField":
		return fmt.Sprintf("%s(%s,%s)", a.Name, a.P, a.Sf)
	case "RemoveField":
		return fmt.Sprintf("RemoveField(%s)", a.P)
	case "RenameField":
		return fmt.Sprintf("RenameField(%s,%s)", a.P, a.Q)
	case "RemoveType":
		return fmt.Sprintf("RemoveType(%s)", a.T)
	}
	return a.Name
}

func (m MethRec) exists() bool { return m.Body != "none" }

// ---- observation of the real tree ----------------------------------------------

// Obs is the projection of the real resolver files onto the abstract state.
type Obs struct {
	Meth    map[string]map[string]MethRec
	Root    string // root resolver type declared in resolver.go: "gen" | root token | "none" | "?changed"
	Helpers map[string][]string
	Imports map[string][]string
	Warn    map[string][]WarnTok
	Enc     map[string]string // encoding of each resolver file (lf, crlf, mixed, nonl, bom)
	Ok      bool
	Notes   []string // parse errors, unformatted files, unknown text
}

// ---- the concrete project --------------------------------------------------------

// Conc is one concrete project: a directory, a seed for the pools, and the
// registry mapping concrete text back to abstract tokens.
type Conc struct {
	Root  string // project directory (inside the harness module)
	Base  string // import path of Root
	Seed  int64
	Pairs []string
	Files []string // schema files that can hold fields ("a","b")

	names     map[string]pairName // pair -> concrete type / field name
	typeNames map[string]string   // abstract type -> concrete type name

	bodyTok map[string]string // normalised body text (without use lines) -> token
	docTok  map[string]string // raw doc text -> token
	helpTok map[string]struct{ tok, file string }
	helpSrc map[string][]string // tok|file -> normalised decl texts
	rootTok map[string]string   // normalised text of a customised root struct declaration -> root token
}

func NewConc(root, base string, seed int64, pairs, files []string) *Conc {
	return &Conc{Root: root, Base: base, Seed: seed, Pairs: sortedCopy(pairs), Files: sortedCopy(files),
		bodyTok: map[string]string{}, docTok: map[string]string{},
		helpTok: map[string]struct{ tok, file string }{}, helpSrc: map[string][]string{}, rootTok: map[string]string{}}
}

func (c *Conc) RFiles() []string { return append(append([]string{}, c.Files...), "resolver") }

func (c *Conc) RPath(rfile string) string {
	if rfile == "resolver" {
		return filepath.Join(c.Root, "graph", "resolver.go")
	}
	return filepath.Join(c.Root, "graph", rfile+".resolvers.go")
}

// ConfigYAML renders gqlgen.yml for a Project.tla configuration (base = import path of the project root).
func ConfigYAML(cfg PCfg, skipValidation bool, base string) string {
	var sb strings.Builder
	sb.WriteString("schema: [\"*.graphqls\"]\n")
	if cfg.El == "follow" {
		sb.WriteString("exec:\n  layout: follow-schema\n  dir: graph\n  package: graph\n")
	} else {
		sb.WriteString("exec:\n  filename: graph/generated.go\n  package: graph\n")
	}
	sb.WriteString("model:\n  filename: graph/model/models_gen.go\n  package: model\n")
	if cfg.Rl == "follow" {
		sb.WriteString("resolver:\n  layout: follow-schema\n  dir: graph\n  package: graph\n  filename_template: \"{name}.resolvers.go\"\n")
	} else {
		sb.WriteString("resolver:\n  filename: graph/resolver.go\n  type: Resolver\n  package: graph\n")
	}
	switch cfg.ab() {
	case "none":
	case "exec":
		// the package generated.go lives in is autobound (hand-written models kept next to the resolvers)
		fmt.Fprintf(&sb, "autobind:\n  - %q\n", base+"/graph")
	default:
		// hand-written models are kept next to the generated ones: the model output package is autobound
		fmt.Fprintf(&sb, "autobind:\n  - %q\n", base+"/graph/model")
	}
	fmt.Fprintf(&sb, "skip_mod_tidy: true\nskip_validation: %v\nomit_gqlgen_version_in_file_notice: true\n", skipValidation)
	return sb.String()
}

// WriteSchema renders the SDL files canonically from (schema, texists).
func (c *Conc) WriteSchema(s *PState) error {
	var base strings.Builder
	base.WriteString("directive @goField(forceResolver: Boolean, name: String, omittable: Boolean) on INPUT_FIELD_DEFINITION | FIELD_DEFINITION\n\n")
	if s.Cfg.ab() == "exec" {
		// Config / ResolverRoot are named like top-level identifiers of generated.go, which lives in the autobound package
		base.WriteString("type Query {\n  keep: Boolean\n  config: Config\n  root: ResolverRoot\n}\n\ntype Config {\n  id: ID!\n  name: String\n}\n\ntype ResolverRoot {\n  id: ID!\n}\n")
	} else if s.Cfg.ab() == "hand" {
		// Account is hand-written in graph/model/account.go and found through autobind of the model package
		base.WriteString("type Query {\n  keep: Boolean\n  account(id: ID!): Account\n}\n\ntype Account {\n  id: ID!\n  name: String!\n}\n")
	} else {
		base.WriteString("type Query {\n  keep: Boolean\n}\n")
	}
	types := []string{}
	for t, ex := range s.Texists {
		if ex {
			types = append(types, t)
		}
	}
	sort.Strings(types)
	for _, t := range types {
		fmt.Fprintf(&base, "\ntype %s {\n  id: ID!\n}\n", c.concreteType(t))
	}
	if err := os.WriteFile(filepath.Join(c.Root, "base.graphqls"), []byte(base.String()), 0o644); err != nil {
		return err
	}
	for _, f := range c.Files {
		byType := map[string][]string{}
		for _, p := range c.Pairs {
			if s.Schema[p] == f {
				byType[c.typeName(p)] = append(byType[c.typeName(p)], c.fieldName(p))
			}
		}
		var sb strings.Builder
		fmt.Fprintf(&sb, "# schema file %s\n", f)
		ts := []string{}
		for t := range byType {
			ts = append(ts, t)
		}
		sort.Strings(ts)
		for _, t := range ts {
			fmt.Fprintf(&sb, "\nextend type %s {\n", t)
			sort.Strings(byType[t])
			for _, fld := range byType[t] {
				if t == "Query" {
					fmt.Fprintf(&sb, "  %s: String!\n", fld)
				} else {
					fmt.Fprintf(&sb, "  %s: String! @goField(forceResolver: true)\n", fld)
				}
			}
			sb.WriteString("}\n")
		}
		if err := os.WriteFile(filepath.Join(c.Root, f+".graphqls"), []byte(sb.String()), 0o644); err != nil {
			return err
		}
	}
	return nil
}

// Create writes config + schema of a new project (no Go files yet).
func (c *Conc) Create(s *PState) error {
	if err := os.RemoveAll(c.Root); err != nil {
		return err
	}
	if err := os.MkdirAll(filepath.Join(c.Root, "graph"), 0o755); err != nil {
		return err
	}
	if err := os.WriteFile(filepath.Join(c.Root, "gqlgen.yml"), []byte(ConfigYAML(s.Cfg, true, c.Base)), 0o644); err != nil {
		return err
	}
	if s.Cfg.ab() == "exec" {
		// an autobound package must exist (and hold a Go file) before the first generation
		if err := os.WriteFile(filepath.Join(c.Root, "graph", "doc.go"), []byte("// Package graph holds the resolvers and the generated executor.\npackage graph\n"), 0o644); err != nil {
			return err
		}
	} else if ab := s.Cfg.ab(); ab != "none" {
		// an autobound package must exist before the first generation: it holds hand-written Go
		if err := os.MkdirAll(filepath.Join(c.Root, "graph", "model"), 0o755); err != nil {
			return err
		}
		files := map[string]string{"doc.go": "// Package model holds the hand-written models; gqlgen adds models_gen.go next to this file.\npackage model\n"}
		if ab == "hand" {
			files["account.go"] = "package model\n\n// Account is maintained by hand and bound to the GraphQL type Account through autobind.\ntype Account struct {\n\tID   string\n\tName string\n}\n"
		}
		for n, txt := range files {
			if err := os.WriteFile(filepath.Join(c.Root, "graph", "model", n), []byte(txt), 0o644); err != nil {
				return err
			}
		}
	}
	return c.WriteSchema(s)
}

// ---- file encodings ---------------------------------------------------------------
//
// "The user's editor re-saved the file": CRLF or mixed line endings, no final
// newline, a UTF-8 byte order mark. The code is the same code; the harness's
// own edits keep whatever encoding the file has.

const bom = "\xEF\xBB\xBF"

func detectEnc(b []byte) string {
	s := string(b)
	if strings.HasPrefix(s, bom) {
		return "bom"
	}
	crlf := strings.Count(s, "\r\n")
	lf := strings.Count(s, "\n")
	switch {
	case crlf > 0 && crlf == lf:
		return "crlf"
	case crlf > 0:
		return "mixed"
	case len(s) > 0 && !strings.HasSuffix(s, "\n"):
		return "nonl"
	}
	return "lf"
}

func toLF(b []byte) []byte {
	s := strings.TrimPrefix(string(b), bom)
	s = strings.ReplaceAll(s, "\r\n", "\n")
	if !strings.HasSuffix(s, "\n") {
		s += "\n"
	}
	return []byte(s)
}

func encode(lf []byte, enc string) []byte {
	s := string(toLF(lf))
	switch enc {
	case "crlf":
		return []byte(strings.ReplaceAll(s, "\n", "\r\n"))
	case "mixed":
		lines := strings.SplitAfter(s, "\n")
		for i := range lines {
			if i%2 == 0 && strings.HasSuffix(lines[i], "\n") {
				lines[i] = strings.TrimSuffix(lines[i], "\n") + "\r\n"
			}
		}
		return []byte(strings.Join(lines, ""))
	case "nonl":
		return []byte(strings.TrimRight(s, "\n"))
	case "bom":
		return []byte(bom + s)
	}
	return []byte(s)
}

// readSrc reads a resolver file as LF text and reports its encoding.
func readSrc(path string) ([]byte, string, error) {
	b, err := os.ReadFile(path)
	if err != nil {
		return nil, "", err
	}
	return toLF(b), detectEnc(b), nil
}

// Resave rewrites resolver file rfile with encoding enc.
func (c *Conc) Resave(rfile, enc string) error {
	src, _, err := readSrc(c.RPath(rfile))
	if err != nil {
		return err
	}
	return os.WriteFile(c.RPath(rfile), encode(src, enc), 0o644)
}

// ---- user edits of Go sources ------------------------------------------------------

// methodSource renders the body text of a method record: use lines + pool text.
func (c *Conc) methodBody(pair, mname string, m MethRec) string {
	var lines []string
	for _, u := range sortedCopy(m.Uses) {
		lines = append(lines, c.useLine(u))
	}
	var body string
	if m.Body == "gen" {
		body = fmt.Sprintf("panic(fmt.Errorf(\"not implemented: %s - %s\"))", mname, c.fieldName(pair))
	} else {
		body = c.bodyText(m.Body, m.Named, pair)
	}
	return strings.Join(append(lines, body), "\n")
}

// findMethod finds the declaration of pair's resolver method under whatever
// receiver / method name the generator chose (returns the receiver type name too).
func (c *Conc) findMethod(f *ast.File, pair string) (*ast.FuncDecl, string) {
	for _, d := range f.Decls {
		fd, ok := d.(*ast.FuncDecl)
		if !ok || fd.Recv == nil || len(fd.Recv.List) == 0 {
			continue
		}
		t := fd.Recv.List[0].Type
		if st, ok := t.(*ast.StarExpr); ok {
			t = st.X
		}
		if id, ok := t.(*ast.Ident); ok && c.pairOf(id.Name, fd.Name.Name) == pair {
			return fd, id.Name
		}
	}
	return nil, ""
}

// SetMethod rewrites the declaration of pair's method in resolver file rfile
// to the concretisation of m (doc comment, named results, body), keeping the
// parameter list and result type of the existing declaration, then gofmt's
// the file like an editor would.
func (c *Conc) SetMethod(rfile, pair string, m MethRec) error {
	path := c.RPath(rfile)
	src, fenc, err := readSrc(path)
	if err != nil {
		return err
	}
	fset := token.NewFileSet()
	f, err := parser.ParseFile(fset, path, src, parser.ParseComments)
	if err != nil {
		return err
	}
	fd, recv := c.findMethod(f, pair)
	if fd == nil {
		return fmt.Errorf("%s: resolver method of %s (%s.%s) not found", rfile, pair, c.typeName(pair), c.fieldName(pair))
	}
	mname := fd.Name.Name
	off := func(p token.Pos) int { return fset.Position(p).Offset }
	start := off(fd.Pos())
	if fd.Doc != nil {
		start = off(fd.Doc.Pos())
	}
	end := off(fd.End())
	params := string(src[off(fd.Type.Params.Opening)+1 : off(fd.Type.Params.Closing)])
	if fd.Type.Results == nil || len(fd.Type.Results.List) != 2 {
		return fmt.Errorf("%s: unexpected result list", pair)
	}
	rt := fd.Type.Results.List[0].Type
	rtype := string(src[off(rt.Pos()):off(rt.End())])
	results := fmt.Sprintf("(%s, error)", rtype)
	if m.Named {
		results = fmt.Sprintf("(res %s, err error)", rtype)
	}
	var sb strings.Builder
	if d := c.docText(m.Doc, pair, mname); d != "" {
		sb.WriteString(d + "\n")
	}
	fmt.Fprintf(&sb, "func (r *%s) %s(%s) %s {\n%s\n}", recv, mname, params, results, c.methodBody(pair, mname, m))
	out := append(append(append([]byte{}, src[:start]...), sb.String()...), src[end:]...)
	if strings.Contains(sb.String(), "fmt.") && !bytes.Contains(out, []byte("\t\"fmt\"\n")) {
		// like the user's editor: the body references fmt, so the file imports it
		if i := bytes.Index(out, []byte("import (\n")); i >= 0 {
			i += len("import (\n")
			out = append(append(append([]byte{}, out[:i]...), "\t\"fmt\"\n"...), out[i:]...)
		}
	}
	fm, err := format.Source(out)
	if err != nil {
		return fmt.Errorf("gofmt of edited %s: %v\n%s", rfile, err, out)
	}
	if err := os.WriteFile(path, encode(fm, fenc), 0o644); err != nil {
		return err
	}
	return c.register(rfile, pair, m)
}

// register records the text the edited method has in the formatted file, so
// that the projection can map it back to the tokens.
func (c *Conc) register(rfile, pair string, m MethRec) error {
	path := c.RPath(rfile)
	src, _, err := readSrc(path)
	if err != nil {
		return err
	}
	fset := token.NewFileSet()
	f, err := parser.ParseFile(fset, path, src, parser.ParseComments)
	if err != nil {
		return err
	}
	fd, _ := c.findMethod(f, pair)
	if fd == nil {
		return fmt.Errorf("register: method not found")
	}
	body, _ := splitUses(bodySource(fset, src, fd))
	if m.Body != "gen" {
		key := fmt.Sprintf("%v|%s", m.Named, body)
		if old, ok := c.bodyTok[key]; ok && old != m.Body {
			return fmt.Errorf("pool texts of %s and %s coincide", old, m.Body)
		}
		c.bodyTok[key] = m.Body
	}
	if m.Doc != "gen" && m.Doc != "none" {
		raw := rawDoc(fd.Doc)
		c.docTok[pair+"|"+raw] = m.Doc
		if m.Doc == "dd" { // the same doc without its directive lines is ddx
			c.docTok[pair+"|"+stripDirectives(raw)] = "ddx"
		}
	}
	return nil
}

func bodySource(fset *token.FileSet, src []byte, fd *ast.FuncDecl) string {
	lb := fset.Position(fd.Body.Lbrace).Offset
	rb := fset.Position(fd.Body.Rbrace).Offset
	return strings.TrimSpace(strings.ReplaceAll(string(src[lb+1:rb]), "\r", ""))
}

var reUse = regexp.MustCompile(`// use:(\w+)$`)

// splitUses separates the leading use-lines from the rest of a body.
func splitUses(body string) (rest string, uses []string) {
	lines := strings.Split(body, "\n")
	i := 0
	for ; i < len(lines); i++ {
		m := reUse.FindStringSubmatch(strings.TrimSpace(lines[i]))
		if m == nil {
			break
		}
		uses = append(uses, m[1])
	}
	rest = strings.TrimSpace(strings.Join(lines[i:], "\n"))
	sort.Strings(uses)
	if uses == nil {
		uses = []string{}
	}
	return rest, uses
}

var reDirective = regexp.MustCompile(`^//(go:|line |extern |export |[a-z0-9]+:[a-z0-9])`)

// stripDirectives removes directive lines (and the blank comment lines left
// at the end) from a raw // doc comment.
func stripDirectives(raw string) string {
	var out []string
	for _, l := range strings.Split(raw, "\n") {
		if reDirective.MatchString(l) {
			continue
		}
		out = append(out, l)
	}
	for len(out) > 0 && strings.TrimSpace(out[len(out)-1]) == "//" {
		out = out[:len(out)-1]
	}
	return strings.Join(out, "\n")
}

func rawDoc(g *ast.CommentGroup) string {
	if g == nil {
		return ""
	}
	var l []string
	for _, cm := range g.List {
		l = append(l, strings.ReplaceAll(cm.Text, "\r", ""))
	}
	return strings.Join(l, "\n")
}

// AddImportSpec inserts the import of token tok into resolver file rfile.
func (c *Conc) AddImportSpec(rfile, tok string) error {
	path := c.RPath(rfile)
	src, fenc, err := readSrc(path)
	if err != nil {
		return err
	}
	spec := c.importSpecOf(tok).line()
	s := string(src)
	if strings.Contains(s, "\t"+spec+"\n") {
		return nil
	}
	i := strings.Index(s, "import (\n")
	if i < 0 {
		return fmt.Errorf("%s: no import block", rfile)
	}
	i += len("import (\n")
	s = s[:i] + "\t" + spec + "\n" + s[i:]
	fm, err := format.Source([]byte(s))
	if err != nil {
		return err
	}
	return os.WriteFile(path, encode(fm, fenc), 0o644)
}

// AddHelperDecls inserts the declarations of helper token tok into rfile
// (seeded position: before the first function or after the last declaration).
func (c *Conc) AddHelperDecls(rfile, tok string) error {
	path := c.RPath(rfile)
	src, fenc, err := readSrc(path)
	if err != nil {
		return err
	}
	fset := token.NewFileSet()
	f, err := parser.ParseFile(fset, path, src, parser.ParseComments)
	if err != nil {
		return err
	}
	name, decls := c.helperText(tok, rfile)
	text := "\n\n"
	if pick(c.Seed, 2, "helperdoc", tok, rfile) == 0 {
		text += "// " + name + " is a helper the user keeps next to the resolvers.\n"
	}
	text += strings.Join(decls, "\n\n") + "\n\n"
	at := -1
	if pick(c.Seed, 2, "helperpos", tok, rfile) == 0 {
		for _, d := range f.Decls {
			if fd, ok := d.(*ast.FuncDecl); ok {
				at = fset.Position(fd.Pos()).Offset
				if fd.Doc != nil {
					at = fset.Position(fd.Doc.Pos()).Offset
				}
				break
			}
		}
	}
	if at < 0 {
		last := f.Decls[len(f.Decls)-1]
		at = fset.Position(last.End()).Offset
	}
	out := string(src[:at]) + text + string(src[at:])
	fm, err := format.Source([]byte(out))
	if err != nil {
		return fmt.Errorf("gofmt after AddHelper: %v", err)
	}
	if err := os.WriteFile(path, encode(fm, fenc), 0o644); err != nil {
		return err
	}
	c.helpTok[name] = struct{ tok, file string }{tok, rfile}
	// register the declaration texts as they appear in the formatted file
	f2, err := parser.ParseFile(fset, path, fm, parser.ParseComments)
	if err != nil {
		return err
	}
	var texts []string
	for _, d := range f2.Decls {
		if n := declHelperName(d); n == name {
			texts = append(texts, normDecl(string(fm[fset.Position(d.Pos()).Offset:fset.Position(d.End()).Offset])))
		}
	}
	sort.Strings(texts)
	c.helpSrc[tok+"|"+rfile] = texts
	return nil
}

// ---- the root resolver struct -------------------------------------------------------
//
// "The user customised `type Resolver struct{}`": fields, embedded types, a doc
// comment (pool.go rootPool). The projection compares the whole declaration text
// (struct type with its field list, tags and inner comments; not the doc comment,
// which is not code of the declaration), so an emptied struct is not mistaken for
// the user's.

var reRootGen = regexp.MustCompile(`^type Resolver struct\s*\{\s*\}$`)

// rootToken maps the normalised text of a `type Resolver ...` declaration to "gen" (the
// template's empty struct), the root token the user wrote, or "?changed".
func (c *Conc) rootToken(text string, notes *[]string) string {
	if reRootGen.MatchString(text) {
		return "gen"
	}
	if tok, ok := c.rootTok[text]; ok {
		return tok
	}
	*notes = append(*notes, "root resolver type: declaration is neither the template's nor one the user wrote:\n"+text)
	return "?changed"
}

// ensureImports adds the missing ones of paths to the file's imports (like the user's editor would).
func ensureImports(src []byte, paths ...string) []byte {
	for _, p := range paths {
		q := fmt.Sprintf("%q", p)
		fset := token.NewFileSet()
		f, err := parser.ParseFile(fset, "x.go", src, parser.ImportsOnly)
		if err != nil {
			return src
		}
		have := false
		for _, is := range f.Imports {
			if is.Path.Value == q && is.Name == nil {
				have = true
			}
		}
		if have {
			continue
		}
		s := string(src)
		if i := strings.Index(s, "import (\n"); i >= 0 {
			i += len("import (\n")
			s = s[:i] + "\t" + q + "\n" + s[i:]
		} else {
			// no import block (resolver.go of the follow-schema layout): after the package clause
			j := fset.Position(f.Name.End()).Offset
			if k := strings.Index(s[j:], "\n"); k >= 0 {
				j += k + 1
			} else {
				s += "\n"
				j = len(s)
			}
			s = s[:j] + "\nimport (\n\t" + q + "\n)\n" + s[j:]
		}
		src = []byte(s)
	}
	return src
}

// SetRoot rewrites the declaration of the root resolver type in resolver.go to the
// concretisation of root token tok (doc comment included), adds the imports its field
// types need and gofmt's the file.
func (c *Conc) SetRoot(tok string) error {
	path := c.RPath("resolver")
	src, fenc, err := readSrc(path)
	if err != nil {
		return err
	}
	fset := token.NewFileSet()
	f, err := parser.ParseFile(fset, path, src, parser.ParseComments)
	if err != nil {
		return err
	}
	var gd *ast.GenDecl
	for _, d := range f.Decls {
		if g, ok := d.(*ast.GenDecl); ok && g.Tok == token.TYPE && len(g.Specs) > 0 {
			if ts, ok := g.Specs[0].(*ast.TypeSpec); ok && ts.Name.Name == "Resolver" {
				gd = g
			}
		}
	}
	if gd == nil {
		return fmt.Errorf("resolver.go: no declaration of the root resolver type")
	}
	start := fset.Position(gd.Pos()).Offset
	if gd.Doc != nil {
		start = fset.Position(gd.Doc.Pos()).Offset
	}
	end := fset.Position(gd.End()).Offset
	text := c.rootText(tok)
	out := append(append(append([]byte{}, src[:start]...), text...), src[end:]...)
	var need []string
	for _, p := range []string{"sync", "fmt", "context"} {
		if strings.Contains(text, p+".") {
			need = append(need, p)
		}
	}
	out = ensureImports(out, need...)
	fm, err := format.Source(out)
	if err != nil {
		return fmt.Errorf("gofmt after EditRoot: %v\n%s", err, out)
	}
	if err := os.WriteFile(path, encode(fm, fenc), 0o644); err != nil {
		return err
	}
	// register the declaration text as it appears in the formatted file
	fset2 := token.NewFileSet()
	f2, err := parser.ParseFile(fset2, path, fm, parser.ParseComments)
	if err != nil {
		return err
	}
	d := c.projectDecls(fset2, fm, f2.Decls, false, &[]string{})
	if d.root == "" || reRootGen.MatchString(d.root) {
		return fmt.Errorf("EditRoot(%s): customised root struct not found after the edit", tok)
	}
	if old, ok := c.rootTok[d.root]; ok && old != tok {
		return fmt.Errorf("pool texts of root tokens %s and %s coincide", old, tok)
	}
	c.rootTok[d.root] = tok
	return nil
}

func normDecl(s string) string {
	lines := strings.Split(s, "\n")
	for i := range lines {
		lines[i] = strings.TrimSpace(lines[i])
	}
	return strings.Join(lines, "\n")
}

var reHelperName = regexp.MustCompile(`^(helper[A-Z][a-z]*[A-Z][a-z]*)B?$`)

// declHelperName returns the helper token name a declaration belongs to ("" if none).
func declHelperName(d ast.Decl) string {
	switch x := d.(type) {
	case *ast.FuncDecl:
		if x.Recv != nil && len(x.Recv.List) > 0 {
			t := x.Recv.List[0].Type
			if st, ok := t.(*ast.StarExpr); ok {
				t = st.X
			}
			if id, ok := t.(*ast.Ident); ok {
				if m := reHelperName.FindStringSubmatch(id.Name); m != nil {
					return m[1]
				}
				if id.Name == "Resolver" { // helper method on the root resolver struct (token hr)
					if m := reHelperName.FindStringSubmatch(x.Name.Name); m != nil {
						return m[1]
					}
				}
			}
			return ""
		}
		if m := reHelperName.FindStringSubmatch(x.Name.Name); m != nil {
			return m[1]
		}
	case *ast.GenDecl:
		if x.Tok == token.IMPORT || len(x.Specs) == 0 {
			return ""
		}
		switch sp := x.Specs[0].(type) {
		case *ast.TypeSpec:
			if m := reHelperName.FindStringSubmatch(sp.Name.Name); m != nil {
				return m[1]
			}
		case *ast.ValueSpec:
			if m := reHelperName.FindStringSubmatch(sp.Names[0].Name); m != nil {
				return m[1]
			}
		}
	}
	return ""
}

// ---- projection ------------------------------------------------------------------

var reDefaultBody = regexp.MustCompile(`^panic\(fmt\.Errorf\("not implemented: (\w+) - (\w+)"\)\)$`)

// the single-file layout's default body
const defaultBodySingle = `panic("not implemented")`

func (c *Conc) pairOf(recv, name string) string {
	for _, p := range c.Pairs {
		if normName(recv) == normName(c.typeName(p))+"resolver" && normName(name) == normName(c.fieldName(p)) {
			return p
		}
	}
	return ""
}

type declObs struct {
	meth    map[string]MethRec
	helpers map[string][]string // helper name -> normalised decl texts found
	dup     []string
	root    string // normalised source text of the declaration `type Resolver ...` ("" = not declared here)
}

// projectDecls maps declarations to tokens. Boilerplate the generator owns
// (root accessor methods, xxxResolver struct types, type Resolver, the Keep
// resolver of the fixed base schema) is ignored.
func (c *Conc) projectDecls(fset *token.FileSet, src []byte, decls []ast.Decl, withDoc bool, notes *[]string) declObs {
	o := declObs{meth: map[string]MethRec{}, helpers: map[string][]string{}}
	for _, d := range decls {
		if fd, ok := d.(*ast.FuncDecl); ok && fd.Recv != nil && len(fd.Recv.List) > 0 && fd.Body != nil {
			t := fd.Recv.List[0].Type
			if st, ok := t.(*ast.StarExpr); ok {
				t = st.X
			}
			if id, ok := t.(*ast.Ident); ok {
				if p := c.pairOf(id.Name, fd.Name.Name); p != "" {
					rec := c.projectMethod(fset, src, fd, p, withDoc, notes)
					if _, dup := o.meth[p]; dup {
						o.dup = append(o.dup, p)
					}
					o.meth[p] = rec
					continue
				}
			}
		}
		if gd, ok := d.(*ast.GenDecl); ok && gd.Tok == token.TYPE && len(gd.Specs) > 0 {
			if ts, ok := gd.Specs[0].(*ast.TypeSpec); ok && ts.Name.Name == "Resolver" {
				// the whole declaration (struct type with its field list, tags, comments inside), without the doc comment
				o.root = normDecl(string(src[fset.Position(gd.Pos()).Offset:fset.Position(gd.End()).Offset]))
			}
		}
		if n := declHelperName(d); n != "" {
			o.helpers[n] = append(o.helpers[n], normDecl(string(src[fset.Position(d.Pos()).Offset:fset.Position(d.End()).Offset])))
		}
	}
	return o
}

func (c *Conc) projectMethod(fset *token.FileSet, src []byte, fd *ast.FuncDecl, pair string, withDoc bool, notes *[]string) MethRec {
	rec := MethRec{Uses: []string{}}
	body, uses := splitUses(bodySource(fset, src, fd))
	rec.Uses = uses
	if fd.Type.Results != nil && len(fd.Type.Results.List) > 0 && len(fd.Type.Results.List[0].Names) > 0 {
		rec.Named = true
	}
	if body == defaultBodySingle {
		rec.Body = "gen"
	} else if m := reDefaultBody.FindStringSubmatch(body); m != nil {
		if m[1] == fd.Name.Name && m[2] == c.fieldName(pair) {
			rec.Body = "gen"
		} else {
			rec.Body = "?default-body-of-" + m[1]
		}
	} else if tok, ok := c.bodyTok[fmt.Sprintf("%v|%s", rec.Named, body)]; ok {
		rec.Body = tok
	} else {
		rec.Body = "?unknown-body"
		*notes = append(*notes, fmt.Sprintf("%s: body text is none of the texts the user wrote:\n%s", pair, body))
	}
	if !withDoc {
		rec.Doc = "-"
		return rec
	}
	raw := rawDoc(fd.Doc)
	switch {
	case raw == "":
		rec.Doc = "none"
	case raw == c.docText("gen", pair, fd.Name.Name):
		rec.Doc = "gen"
	default:
		if tok, ok := c.docTok[pair+"|"+raw]; ok {
			rec.Doc = tok
		} else {
			rec.Doc = "?unknown-doc"
			*notes = append(*notes, fmt.Sprintf("%s: doc comment is none of the comments the user wrote:\n%s", pair, raw))
		}
	}
	return rec
}

const warnMarker = "// !!! WARNING !!!"

// the prose lines of resolver.gotpl's warning block (not user code)
var warnProse = map[string]bool{
	"!!! WARNING !!!": true,
	"The code below was going to be deleted when updating resolvers. It has been copied here so you have": true,
	"one last chance to move it out of harms way if you want. There are two reasons this happens:":       true,
	"- When renaming or deleting a resolver the old code will be put in here. You can safely delete":     true,
	"it when you're done.": true,
	"- You have helper methods in this file. Move them out to keep these resolver files clean.": true,
}

// warnBlock recovers the source text carried by the trailing warning block,
// independent of its representation: everything after the "!!! WARNING !!!"
// marker up to the end of the file that is a comment - one /* */ block
// comment, a run of // line comments (one leading "// " or "//" stripped per
// line), or a mix - minus the template's own prose lines.
func warnBlock(f *ast.File) (string, bool) {
	found := false
	var out []string
	for _, g := range f.Comments {
		for _, cm := range g.List {
			if !found {
				if strings.HasPrefix(cm.Text, warnMarker) {
					found = true
				}
				continue
			}
			t := strings.ReplaceAll(cm.Text, "\r", "")
			if strings.HasPrefix(t, "/*") {
				out = append(out, strings.TrimSuffix(strings.TrimPrefix(t, "/*"), "*/"))
				continue
			}
			line := strings.TrimPrefix(t, "//")
			if warnProse[strings.TrimSpace(line)] {
				continue
			}
			out = append(out, strings.TrimPrefix(line, " "))
		}
	}
	return strings.Join(out, "\n"), found
}

// WarnText parses a resolver file and returns the source text carried by its trailing warning block.
func WarnText(src []byte) (string, bool) {
	f, err := parser.ParseFile(token.NewFileSet(), "x.go", src, parser.ParseComments)
	if err != nil {
		return "", false
	}
	return warnBlock(f)
}

// helperTokens converts found helper declarations into tokens: a token is
// present iff all its declarations are present with the registered text.
func (c *Conc) helperTokens(found map[string][]string, rfile string, notes *[]string) []string {
	out := []string{}
	for name, texts := range found {
		h, ok := c.helpTok[name]
		if !ok {
			*notes = append(*notes, "declaration of unknown helper "+name)
			out = append(out, "?"+name)
			continue
		}
		want := c.helpSrc[h.tok+"|"+h.file]
		sort.Strings(texts)
		if strings.Join(texts, "\x00") == strings.Join(want, "\x00") {
			if h.file != rfile {
				out = append(out, h.tok+"@"+h.file)
			} else {
				out = append(out, h.tok)
			}
		} else {
			out = append(out, "?changed:"+h.tok)
			*notes = append(*notes, fmt.Sprintf("helper %s: text differs from what the user wrote:\n%s\n--- want\n%s", name, strings.Join(texts, "\n--\n"), strings.Join(want, "\n--\n")))
		}
	}
	sort.Strings(out)
	return out
}

// Project reads the real resolver files and projects them onto the abstract state.
func (c *Conc) Project() *Obs {
	o := &Obs{Root: "none", Meth: map[string]map[string]MethRec{}, Helpers: map[string][]string{}, Imports: map[string][]string{}, Warn: map[string][]WarnTok{}, Enc: map[string]string{}, Ok: true}
	for _, rf := range c.RFiles() {
		o.Meth[rf] = map[string]MethRec{}
		for _, p := range c.Pairs {
			o.Meth[rf][p] = MethRec{Body: "none", Doc: "none", Uses: []string{}}
		}
		o.Helpers[rf], o.Imports[rf], o.Warn[rf] = []string{}, []string{}, []WarnTok{}
		path := c.RPath(rf)
		o.Enc[rf] = "lf"
		src, err := os.ReadFile(path)
		if err != nil {
			continue // file does not exist: empty
		}
		o.Enc[rf] = detectEnc(src)
		fset := token.NewFileSet()
		f, err := parser.ParseFile(fset, path, src, parser.ParseComments)
		if err != nil {
			o.Ok = false
			o.Notes = append(o.Notes, fmt.Sprintf("%s does not parse: %v", filepath.Base(path), err))
			continue
		}
		if fm, err := format.Source(src); o.Enc[rf] == "lf" && (err != nil || !bytes.Equal(fm, src)) {
			o.Notes = append(o.Notes, fmt.Sprintf("%s is not gofmt-clean", filepath.Base(path)))
		}
		d := c.projectDecls(fset, src, f.Decls, true, &o.Notes)
		for p, m := range d.meth {
			o.Meth[rf][p] = m
		}
		for _, p := range d.dup {
			o.Notes = append(o.Notes, fmt.Sprintf("%s: method for %s declared twice", rf, p))
			m := o.Meth[rf][p]
			m.Body = "?dup:" + m.Body
			o.Meth[rf][p] = m
		}
		o.Helpers[rf] = c.helperTokens(d.helpers, rf, &o.Notes)
		if rf == "resolver" && d.root != "" {
			o.Root = c.rootToken(d.root, &o.Notes)
		}
		// imports: the user's tokens only; the generator's own imports are not user code
		seen := map[string]int{}
		for _, is := range f.Imports {
			name := ""
			if is.Name != nil {
				name = is.Name.Name
			}
			for tok := range importPool {
				sp := c.importSpecOf(tok)
				if fmt.Sprintf("%q", sp.Path) == is.Path.Value {
					if sp.Name == name {
						seen[tok]++
					} else {
						seen["?"+tok+":renamed-to-"+name]++
					}
				}
			}
		}
		for tok, n := range seen {
			if n > 1 {
				tok = "?dup:" + tok
			}
			o.Imports[rf] = append(o.Imports[rf], tok)
		}
		sort.Strings(o.Imports[rf])
		// trailing warning block
		if inner, ok := warnBlock(f); ok {
			inner = strings.ReplaceAll(inner, "\r", "")
			wf, err := parser.ParseFile(token.NewFileSet(), "warn.go", "package w\n"+inner, parser.ParseComments)
			if err != nil {
				o.Notes = append(o.Notes, fmt.Sprintf("%s: content of the warning block does not parse: %v", rf, err))
				o.Warn[rf] = append(o.Warn[rf], WarnTok{K: "?", ID: "unparsable", Body: "-", Uses: []string{}})
			} else {
				wsrc := []byte("package w\n" + inner)
				wfset := token.NewFileSet()
				wf, _ = parser.ParseFile(wfset, "warn.go", wsrc, parser.ParseComments)
				wd := c.projectDecls(wfset, wsrc, wf.Decls, false, &o.Notes)
				for p, m := range wd.meth {
					o.Warn[rf] = append(o.Warn[rf], WarnTok{K: "m", ID: p, Body: m.Body, Named: m.Named, Uses: m.Uses})
				}
				if wd.root != "" {
					o.Warn[rf] = append(o.Warn[rf], WarnTok{K: "r", ID: c.rootToken(wd.root, &o.Notes), Body: "-", Uses: []string{}})
				}
				for _, h := range c.helperTokens(wd.helpers, rf, &o.Notes) {
					o.Warn[rf] = append(o.Warn[rf], WarnTok{K: "h", ID: h, Body: "-", Uses: []string{}})
				}
			}
		}
		sort.Slice(o.Warn[rf], func(i, j int) bool { return warnKey(o.Warn[rf][i]) < warnKey(o.Warn[rf][j]) })
	}
	return o
}

func warnKey(w WarnTok) string {
	return fmt.Sprintf("%s|%s|%s|%v|%s", w.K, w.ID, w.Body, w.Named, strings.Join(sortedCopy(w.Uses), ","))
}

// ---- comparison --------------------------------------------------------------------

func methKey(m MethRec, withDoc bool) string {
	d := m.Doc
	if !withDoc {
		d = "-"
	}
	return fmt.Sprintf("%s|%s|%v|%s", m.Body, d, m.Named, strings.Join(sortedCopy(m.Uses), ","))
}

// Diff compares an observation with the resolver part of an abstract state
// and lists the differing components ("meth:a:Query_f1:body", "imports:a", ...).
func Diff(o *Obs, meth map[string]map[string]MethRec, root string, helpers, imports map[string][]string, warn map[string][]WarnTok, ok bool) []string {
	var d []string
	if o.Ok != ok {
		d = append(d, fmt.Sprintf("parse: files parse=%v, specification says %v", o.Ok, ok))
	}
	if !ok || !o.Ok {
		return d
	}
	if root == "" {
		root = "gen"
	}
	if o.Root != root {
		d = append(d, fmt.Sprintf("root: resolver.go declares the root resolver type as %s, want %s", o.Root, root))
	}
	for rf, ms := range meth {
		for p, want := range ms {
			got, present := o.Meth[rf][p]
			if !present {
				got = MethRec{Body: "none", Doc: "none", Uses: []string{}}
			}
			if want.Body != got.Body {
				d = append(d, fmt.Sprintf("meth:%s:%s:body got %s want %s", rf, p, got.Body, want.Body))
			}
			if want.Doc != got.Doc {
				d = append(d, fmt.Sprintf("meth:%s:%s:doc got %s want %s", rf, p, got.Doc, want.Doc))
			}
			if want.Named != got.Named {
				d = append(d, fmt.Sprintf("meth:%s:%s:named got %v want %v", rf, p, got.Named, want.Named))
			}
			if strings.Join(sortedCopy(want.Uses), ",") != strings.Join(sortedCopy(got.Uses), ",") {
				d = append(d, fmt.Sprintf("meth:%s:%s:uses got %v want %v", rf, p, got.Uses, want.Uses))
			}
		}
	}
	for rf, want := range helpers {
		if strings.Join(sortedCopy(want), ",") != strings.Join(sortedCopy(o.Helpers[rf]), ",") {
			d = append(d, fmt.Sprintf("helpers:%s got %v want %v", rf, o.Helpers[rf], want))
		}
	}
	for rf, want := range imports {
		if strings.Join(sortedCopy(want), ",") != strings.Join(sortedCopy(o.Imports[rf]), ",") {
			d = append(d, fmt.Sprintf("imports:%s got %v want %v", rf, o.Imports[rf], want))
		}
	}
	for rf, want := range warn {
		var a, b []string
		for _, w := range want {
			a = append(a, warnKey(w))
		}
		for _, w := range o.Warn[rf] {
			b = append(b, warnKey(w))
		}
		sort.Strings(a)
		sort.Strings(b)
		if strings.Join(a, ";") != strings.Join(b, ";") {
			d = append(d, fmt.Sprintf("warn:%s got %v want %v", rf, b, a))
		}
	}
	sort.Strings(d)
	return d
}

func (s *PState) DiffObs(o *Obs) []string {
	return Diff(o, s.Meth, s.Root, s.Helpers, s.Imports, s.Warn, s.Ok)
}

func (i *Ideal) DiffObs(o *Obs) []string {
	return Diff(o, i.Meth, i.Root, i.Helpers, i.Imports, i.Warn, i.Ok)
}

// ---- snapshots -----------------------------------------------------------------------

// Snapshot holds the project's mutable files (SDL + everything under graph/).
type Snapshot map[string][]byte

func (c *Conc) Snapshot() (Snapshot, error) {
	s := Snapshot{}
	err := filepath.Walk(c.Root, func(p string, info os.FileInfo, err error) error {
		if err != nil || info.IsDir() {
			return err
		}
		rel, _ := filepath.Rel(c.Root, p)
		b, err := os.ReadFile(p)
		if err != nil {
			return err
		}
		s[rel] = b
		return nil
	})
	return s, err
}

func (c *Conc) Restore(s Snapshot) error {
	// remove files not in the snapshot, rewrite those that differ
	err := filepath.Walk(c.Root, func(p string, info os.FileInfo, err error) error {
		if err != nil || info.IsDir() {
			return err
		}
		rel, _ := filepath.Rel(c.Root, p)
		if _, ok := s[rel]; !ok {
			return os.Remove(p)
		}
		return nil
	})
	if err != nil {
		return err
	}
	for rel, b := range s {
		p := filepath.Join(c.Root, rel)
		if old, err := os.ReadFile(p); err == nil && bytes.Equal(old, b) {
			continue
		}
		if err := os.MkdirAll(filepath.Dir(p), 0o755); err != nil {
			return err
		}
		if err := os.WriteFile(p, b, 0o644); err != nil {
			return err
		}
	}
	return nil
}

// registry snapshot: the text registry only grows and entries are
// content-addressed, so it needs no restore.
