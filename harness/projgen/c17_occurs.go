package projgen

// C17: self-check of the renderer.  The rendered SDL must be a valid GraphQL
// schema (otherwise a generator error would be the harness's fault) and every
// feature the row selects must actually occur in it.

import (
	"fmt"
	"regexp"
	"sort"
	"strings"

	"github.com/vektah/gqlparser/v2"
	"github.com/vektah/gqlparser/v2/ast"
)

// an initialism of gqlgen's default list spelled in non-upper-case form at a word boundary (Url, Id, Api, ...)
var c17ReLowerInitialism = regexp.MustCompile(`(Url|Id|Api|Http|Json|Xml|Sql|Uuid)([A-Z_0-9]|$)|^(uuid|url|api|http)_`)

// C17CheckOccurs loads the SDL files of p with gqlparser and checks the
// occurrence of every selected feature.  The returned list names the features
// found (for the evidence).
func C17CheckOccurs(p *C17Project) ([]string, error) {
	var srcs []*ast.Source
	var names []string
	for n := range p.Files {
		if strings.HasSuffix(n, ".graphqls") {
			names = append(names, n)
		}
	}
	sort.Strings(names)
	all := ""
	for _, n := range names {
		srcs = append(srcs, &ast.Source{Name: n, Input: p.Files[n]})
		all += p.Files[n] + "\n"
	}
	sch, gerr := gqlparser.LoadSchema(srcs...)
	if gerr != nil {
		return nil, fmt.Errorf("rendered schema is not valid GraphQL: %v", gerr)
	}
	row := p.Row
	found := map[string]bool{}
	userType := func(d *ast.Definition) bool { return !d.BuiltIn && !strings.HasPrefix(d.Name, "__") }
	dirLoc := map[ast.DirectiveLocation]bool{} // custom directives actually applied, by location
	custom := func(dl ast.DirectiveList, loc ast.DirectiveLocation) {
		for _, d := range dl {
			switch d.Name {
			case "deprecated", "specifiedBy", "goField", "goModel", "goTag", "goEnum", "goExtraField":
				found["builtin:"+d.Name] = true
				if d.Name == "goField" {
					for _, a := range d.Arguments {
						found["goField:"+a.Name] = true
					}
				}
			default:
				dirLoc[loc] = true
			}
		}
	}
	var listShapes = map[string]bool{}
	noteType := func(t *ast.Type) {
		if t.Elem == nil {
			return
		}
		s := ""
		for x := t; x != nil; x = x.Elem {
			if x.Elem != nil {
				s += "["
			}
			if x.NonNull {
				s += "!"
			} else {
				s += "?"
			}
		}
		if strings.Count(s, "[") > 1 {
			listShapes["nested"] = true
		}
		listShapes[s] = true
	}
	kw := map[string]bool{}
	for _, k := range c17Keywords {
		kw[k] = true
	}
	for _, d := range sch.Types {
		if !userType(d) {
			continue
		}
		if kw[d.Name] {
			found["kw:type"] = true
		}
		if strings.Contains(d.Name, "_") {
			found["us:type"] = true
		}
		switch d.Kind {
		case ast.Interface:
			found["interface"] = true
			if len(d.Interfaces) > 0 {
				found["ifaceChain"] = true
			}
			custom(d.Directives, ast.LocationInterface)
		case ast.Union:
			found["union"] = true
			custom(d.Directives, ast.LocationUnion)
		case ast.Enum:
			found["enum"] = true
			custom(d.Directives, ast.LocationEnum)
			seen := map[string]string{}
			for _, v := range d.EnumValues {
				custom(v.Directives, ast.LocationEnumValue)
				c := c17Canon(v.Name)
				if o, ok := seen[c]; ok && o != v.Name {
					found["enumClash"] = true
				}
				seen[c] = v.Name
			}
		case ast.InputObject:
			found["input"] = true
			custom(d.Directives, ast.LocationInputObject)
			for _, f := range d.Fields {
				custom(f.Directives, ast.LocationInputFieldDefinition)
				noteType(f.Type)
				if f.DefaultValue != nil {
					found["default:inputfield"] = true
				}
			}
		case ast.Scalar:
			found["scalar:"+d.Name] = true
			if _, ok := p.Files["hand/mine.go"]; ok {
				found["scalar:bound"] = true
			}
			custom(d.Directives, ast.LocationScalar)
		case ast.Object:
			if len(d.Interfaces) > 0 {
				found["implements"] = true
			}
			custom(d.Directives, ast.LocationObject)
		}
		if d.Kind == ast.Object || d.Kind == ast.Interface {
			for _, f := range d.Fields {
				if strings.HasPrefix(f.Name, "__") {
					continue
				}
				custom(f.Directives, ast.LocationFieldDefinition)
				noteType(f.Type)
				if kw[f.Name] {
					found["kw:field"] = true
				}
				if strings.Contains(f.Name, "_") {
					found["us:field"] = true
				}
				for _, a := range f.Arguments {
					custom(a.Directives, ast.LocationArgumentDefinition)
					noteType(a.Type)
					if kw[a.Name] {
						found["kw:arg"] = true
					}
					if strings.Contains(a.Name, "_") {
						found["us:arg"] = true
					}
					if a.DefaultValue != nil {
						found["default:arg"] = true
						switch a.DefaultValue.Kind {
						case ast.ListValue:
							found["default:list"] = true
						case ast.ObjectValue:
							found["default:object"] = true
						case ast.EnumValue:
							found["default:enum"] = true
						case ast.NullValue:
							found["default:null"] = true
						}
					}
				}
			}
		}
	}
	// type names normalising to one Go name
	seenT := map[string]string{}
	for _, d := range sch.Types {
		if !userType(d) {
			continue
		}
		c := c17Canon(d.Name)
		if o, ok := seenT[c]; ok && o != d.Name {
			found["typeClash"] = true
		}
		seenT[c] = d.Name
	}
	for _, d := range sch.Directives {
		for _, l := range d.Locations {
			switch l {
			case ast.LocationQuery, ast.LocationMutation, ast.LocationSubscription, ast.LocationField:
				if d.Position != nil && d.Position.Src != nil && !d.Position.Src.BuiltIn {
					found["execdir:"+string(l)] = true
				}
			}
		}
	}
	need := func(feature string, conds ...string) error {
		for _, c := range conds {
			if !found[c] {
				return fmt.Errorf("feature %s selected but %q does not occur in the rendered schema", feature, c)
			}
		}
		return nil
	}
	needLoc := func(locs ...ast.DirectiveLocation) error {
		for _, l := range locs {
			if !dirLoc[l] {
				return fmt.Errorf("feature dirType selected but no custom directive is applied at %s", l)
			}
		}
		return nil
	}
	var errs []error
	chk := func(e error) {
		if e != nil {
			errs = append(errs, e)
		}
	}
	if row.B("iface") {
		chk(need("iface", "interface", "implements"))
	}
	if row.B("ifaceChain") {
		chk(need("ifaceChain", "ifaceChain"))
	}
	if row.B("union") {
		chk(need("union", "union"))
	}
	if row.B("enum") {
		chk(need("enum", "enum"))
	}
	if row.B("input") {
		chk(need("input", "input"))
	}
	if row.B("lists") {
		for _, s := range []string{"[??", "[?!", "[!?", "[!!", "nested"} {
			if !listShapes[s] {
				chk(fmt.Errorf("feature lists selected but list shape %q does not occur", s))
			}
		}
	}
	if row.B("defaults") {
		chk(need("defaults", "default:arg", "default:list", "default:null"))
		if row.B("enum") {
			chk(need("defaults", "default:enum"))
		}
		if row.B("input") {
			chk(need("defaults", "default:object", "default:inputfield"))
		}
	}
	if row.B("dirType") {
		chk(needLoc(ast.LocationObject, ast.LocationFieldDefinition, ast.LocationArgumentDefinition, ast.LocationScalar))
		if found["enum"] {
			chk(needLoc(ast.LocationEnum, ast.LocationEnumValue))
		}
		if found["input"] {
			chk(needLoc(ast.LocationInputObject, ast.LocationInputFieldDefinition))
		}
		if row.B("iface") || row.B("ifaceChain") {
			chk(needLoc(ast.LocationInterface))
		}
		if found["union"] {
			chk(needLoc(ast.LocationUnion))
		}
	}
	if row.B("dirExec") {
		chk(need("dirExec", "execdir:QUERY", "execdir:MUTATION", "execdir:SUBSCRIPTION", "execdir:FIELD"))
	}
	if row.B("builtinDir") {
		chk(need("builtinDir", "builtin:deprecated", "builtin:goField", "goField:forceResolver", "goField:name",
			"builtin:goModel", "builtin:goTag", "builtin:goExtraField", "builtin:specifiedBy"))
		if row.B("input") {
			chk(need("builtinDir", "goField:omittable"))
		}
		if row.B("enum") && (!row.B("use_function_syntax_for_execution_context") || p.Quirks["funcSyntaxGoEnum"]) {
			chk(need("builtinDir", "builtin:goEnum"))
		}
	}
	if row.B("mutation") && sch.Mutation == nil {
		chk(fmt.Errorf("feature mutation selected but there is no Mutation root"))
	}
	if row.B("subscription") && sch.Subscription == nil {
		chk(fmt.Errorf("feature subscription selected but there is no Subscription root"))
	}
	if row.B("extend") {
		files := 0
		for _, n := range names {
			if strings.Contains("\n"+p.Files[n], "\nextend ") {
				files++
			}
		}
		if files == 0 {
			chk(fmt.Errorf("feature extend selected but no extend block occurs"))
		}
		found["extend"] = true
	}
	if row.B("scalars") {
		chk(need("scalars", "scalar:Time", "scalar:Map", "scalar:Any", "scalar:Upload", "scalar:bound"))
	}
	if row.B("idKeyword") {
		chk(need("idKeyword", "kw:type", "kw:field", "kw:arg"))
	}
	if row.B("idUnderscore") {
		chk(need("idUnderscore", "us:type", "us:field", "us:arg"))
	}
	if row.B("idInitialism") && !strings.Contains(all, "userId") {
		chk(fmt.Errorf("feature idInitialism selected but no initialism name occurs"))
	}
	// a non-root object whose Go name differs from its GraphQL name AND that has a resolver field
	renamedWithResolver := func(renamed func(string) bool) bool {
		for tn, fs := range p.ResolverFields {
			d := sch.Types[tn]
			if d != nil && d.Kind == ast.Object && len(fs) > 0 && renamed(tn) && d != sch.Query && d != sch.Mutation && d != sch.Subscription {
				return true
			}
		}
		return false
	}
	if row.B("idInitialism") {
		if !renamedWithResolver(func(n string) bool { return c17ReLowerInitialism.MatchString(n) }) {
			chk(fmt.Errorf("feature idInitialism selected but no object type with a non-upper-case initialism in its name has a resolver field"))
		}
		found["renamedTypeWithResolver:initialism"] = true
	}
	if row.B("idUnderscore") {
		if !renamedWithResolver(func(n string) bool { return strings.Contains(n, "_") }) {
			chk(fmt.Errorf("feature idUnderscore selected but no object type with an underscore in its name has a resolver field"))
		}
		found["renamedTypeWithResolver:underscore"] = true
	}
	if row.B("handInModel") {
		if d := sch.Types["HandKept"]; d == nil {
			chk(fmt.Errorf("feature handInModel selected but the type HandKept does not occur"))
		} else if _, ok := p.Files[func() string { dir, _ := c17ModelPkg(row); return dir }()+"/handkept.go"]; !ok {
			chk(fmt.Errorf("feature handInModel selected but the hand-written model is not in the model output package"))
		}
		found["handInModel"] = true
	}
	if row.B("autobindModel") {
		dir, _ := c17ModelPkg(row)
		if !strings.Contains(p.Files["gqlgen.yml"], "/"+dir+"\"\n") || !strings.Contains(p.Files["gqlgen.yml"], "autobind:") {
			chk(fmt.Errorf("autobindModel selected but gqlgen.yml does not list the model output package under autobind"))
		}
		if _, ok := p.Files[dir+"/doc.go"]; !ok {
			chk(fmt.Errorf("autobindModel selected but the model output package holds no hand-written Go file"))
		}
		found["autobind:modelOutputPackage"] = true
	}
	if row.B("ifaceOrphan") {
		none, onlyIface := false, false
		for _, d := range sch.Types {
			if d.Kind != ast.Interface || !userType(d) {
				continue
			}
			objs, subs := 0, 0
			for _, pt := range sch.PossibleTypes[d.Name] {
				if pt.Kind == ast.Object {
					objs++
				}
			}
			for _, x := range sch.Types {
				if x.Kind == ast.Interface {
					for _, in := range x.Interfaces {
						if in == d.Name {
							subs++
						}
					}
				}
			}
			if objs == 0 && subs == 0 {
				none = true
			}
			if objs == 0 && subs > 0 {
				onlyIface = true
			}
		}
		if !none || !onlyIface {
			chk(fmt.Errorf("feature ifaceOrphan selected but there is no interface without implementors / implemented only by an interface"))
		}
		found["interface:noImplementor"], found["interface:implementedOnlyByInterface"] = true, true
	}
	if row.B("schemaInExecDir") {
		for _, n := range names {
			if !strings.HasPrefix(n, "graph/") {
				chk(fmt.Errorf("schemaInExecDir selected but schema file %s is outside the exec directory", n))
			}
		}
		found["schemaFilesInsideExecDir"] = true
	}
	if row.B("idEnumClash") {
		chk(need("idEnumClash", "enumClash"))
	}
	if row.B("idTypeClash") {
		chk(need("idTypeClash", "typeClash"))
	}
	if !row.B("idTypeClash") && found["typeClash"] {
		chk(fmt.Errorf("type names normalising to one Go name occur although idTypeClash is off"))
	}
	if len(errs) > 0 {
		return nil, errs[0]
	}
	var out []string
	for k := range found {
		out = append(out, k)
	}
	for l := range dirLoc {
		out = append(out, "customdir@"+string(l))
	}
	sort.Strings(out)
	return out, nil
}
