package projgen

import (
	"fmt"
	"hash/fnv"
	"sort"
	"strings"
)

// Concretisation pools: abstract tokens of spec/Project.tla -> Go source text.
// Every choice is a function of (seed, token, context) only.

func pick(seed int64, n int, parts ...string) int {
	h := fnv.New64a()
	fmt.Fprintf(h, "%d|%s", seed, strings.Join(parts, "|"))
	return int(h.Sum64() % uint64(n))
}

// ---- imports ---------------------------------------------------------------

type importSpec struct {
	Name string // "" plain, "." dot, "_" blank, else alias
	Path string
	Use  string // statement referencing the package ("" for blank imports)
}

// importPool: the classes the specification distinguishes (see MC_Project.tla).
//
//	plain  ordinary import
//	alias  alias that is not a suffix of the path and whose path the template does not reserve
//	dot    dot import (never pruned)
//	asfx   alias that is a suffix of the import path but not the package name (real-world: v2 ".../v2",
//	       pb ".../userpb"); an alias EQUAL to the package name (hex "encoding/hex") is redundant, dropping
//	       it loses nothing, so it is not in the pool
//	arsv   alias of a path that resolver.gotpl reserves itself (errors, fmt, io, ...)
//	blank  blank import (never pruned); blank2: a second blank import in the same file
var importPool = map[string][]importSpec{
	"plain": {{"", "strings", `_ = strings.ToUpper("x")`}, {"", "unicode/utf8", `_ = utf8.RuneLen('x')`}},
	"alias": {{"pth", "path", `_ = pth.Base("x/y")`}, {"txt", "text/tabwriter", `_ = txt.Debug`}},
	"dot":   {{".", "math", `_ = Sqrt(2)`}, {".", "sort", `_ = SearchInts([]int{1}, 1)`}},
	"asfx":  {{"v2", "math/rand/v2", `_ = v2.IntN(3)`}, {"ode", "unicode", `_ = ode.IsUpper('x')`}},
	"arsv":  {{"stderrors", "errors", `_ = stderrors.New("x")`}, {"gotime", "time", `_ = gotime.Second`}, {"stdio", "io", `_ = stdio.EOF`}},
	"blank": {{"_", "embed", ""}},
	"blank2": {{"_", "image/png", ""}, {"_", "image/gif", ""}},
}

func (c *Conc) importSpecOf(tok string) importSpec {
	p := importPool[tok]
	if len(p) == 0 {
		panic("unknown import token " + tok)
	}
	return p[pick(c.Seed, len(p), "imp", tok)]
}

func (s importSpec) line() string {
	if s.Name == "" {
		return fmt.Sprintf("%q", s.Path)
	}
	return fmt.Sprintf("%s %q", s.Name, s.Path)
}

// useLine is the statement placed at the top of the body of the method that
// uses import token tok; the trailing marker lets the projection recover the
// abstract `uses` set from the real source text.
func (c *Conc) useLine(tok string) string {
	s := c.importSpecOf(tok)
	stmt := s.Use
	if stmt == "" {
		stmt = fmt.Sprintf("_ = %q", s.Path)
	}
	return stmt + " // use:" + tok
}

// ---- method bodies ---------------------------------------------------------

// Bodies return (string, error); every body references fmt so that the file's
// fmt import stays used. %R is the return statement for a string expression
// (unnamed: `return X, nil`; named: `res, err = X, nil` + `return`).
var bodyPool = map[string][]string{
	// adversarial, no block comment
	"b1": {
		`s := "{ \"quoted\" } // not a comment"
r0 := ` + "`raw { \" ` + \"`\" + ` }`" + `
if len(s) > 0 { // trailing {
	for i := range []int{1, 2} {
		_ = i
	}
}
f := func(x string) string { return x + "}" }
%R(fmt.Sprint(f(s + r0)))`,
		`// leading line comment with a brace }
out:
	for i := 0; i < 3; i++ {
		switch {
		case i == 1:
			break out
		}
	}

	v := fmt.Sprintf(
		"%s-%d",
		"x{",
		1,
	)
	%R(v)`,
		`m := map[string]struct{ A []int }{
	"}{": {A: []int{1, 2}},
}
raw := ` + "`" + `line one {
	indented line two "quoted"
}` + "`" + `
defer func() {
	if r := recover(); r != nil {
		_ = fmt.Sprint(r, m)
	}
}()
%R(raw) // trailing comment }`,
		`ch := make(chan string, 1)
go func() { ch <- "'\"'" + string('}') + string('\'') }()
select {
case v := <-ch:
	%R(fmt.Sprintf("%q", v))
}`,
		`größe := len("héllo, 世界") // комментарий — ü {
msg := fmt.Sprintf("%d — %s", größe, ` + "`日本語 \"raw\" }`" + `)
%R(msg)`,
	},
	// contains /* ... */ comments
	"b2c": {
		`/* блок — 注释 } */
naïve := "ß" /* ü */ + "…"
%R(fmt.Sprint(naïve))`,
		`/* block comment { with a brace */
x := 1 /* inline */ + 2
%R(fmt.Sprint(x))`,
		`v := fmt.Sprint("/* not a comment */") /* but this is */
/*
	multi-line
	block }
*/
%R(v)`,
	},
}

func (c *Conc) bodyText(tok string, named bool, pair string) string {
	p := bodyPool[tok]
	if len(p) == 0 {
		panic("unknown body token " + tok)
	}
	t := expandReturn(p[pick(c.Seed, len(p), "body", tok, pair)], named)
	return bodyEnding(tok, shadowLocals(tok, t))
}

// shadowBlock: locals named like the packages resolver.gotpl reserves (time, errors, io, strconv, sync,
// bytes), with selector expressions on them: imports.Prune must tell `time.Now()` on a LOCAL from a use of
// package time - otherwise the reserved import stays in the regenerated file ("imported and not used").
// Deliberately part of EVERY b1 body (after a leading line comment, if the body starts with one).
const shadowBlock = `{
	time := struct{ Now func() int }{Now: func() int { return 1 }}
	errors, io := time, &time
	strconv, sync, bytes := time, time, time
	_, _, _, _, _, _ = time.Now(), errors.Now(), io.Now(), strconv.Now(), sync.Now(), bytes.Now()
}
`

func shadowLocals(tok, t string) string {
	if tok != "b1" {
		return t
	}
	if strings.HasPrefix(t, "//") {
		i := strings.Index(t, "\n")
		return t[:i+1] + shadowBlock + t[i+1:]
	}
	return shadowBlock + t
}

// bodyEnding makes the END of a body adversarial, deliberately for every body of a token: the last line of
// a b1 body ends in a // line comment (whatever follows on that line in the regenerated file is swallowed),
// the last line of a b2c body ends in a /* */ comment.
func bodyEnding(tok, t string) string {
	last := t[strings.LastIndex(t, "\n")+1:]
	switch tok {
	case "b1":
		if !strings.Contains(last, "//") {
			t += " // trailing line comment }"
		}
	case "b2c":
		if !strings.HasSuffix(strings.TrimSpace(last), "*/") {
			t += " /* trailing block comment } */"
		}
	}
	return t
}

// expandReturn replaces %R(expr) (expr up to the matching parenthesis).
func expandReturn(t string, named bool) string {
	for {
		i := strings.Index(t, "%R(")
		if i < 0 {
			return t
		}
		depth, j := 0, i+2
		for ; j < len(t); j++ {
			if t[j] == '(' {
				depth++
			} else if t[j] == ')' {
				depth--
				if depth == 0 {
					break
				}
			}
		}
		expr := t[i+3 : j]
		var rep string
		if named {
			rep = "res, err = " + expr + ", nil\nreturn"
		} else {
			rep = "return " + expr + ", nil"
		}
		t = t[:i] + rep + t[j+1:]
	}
}

// ---- doc comments ----------------------------------------------------------

// docPool: d1 = user doc comment without directives; dd = the same kinds of
// text followed by directive lines; ddx = dd with the directive lines removed.
var docTextPool = []string{
	"// %M resolves %F with care.\n//\n// It has a second paragraph: { braces } and \"quotes\".",
	"// %M looks the value up.\n//\n//   - first item\n//   - second item\n//\n// Deprecated: kept for %F.",
	"// %M is documented on a single line.",
	"// %M — résumé of %F: naïve café, 世界.\n//\n// Zweiter Absatz: größer als { } erwartet.",
}
var docDirectivePool = []string{
	"//nolint:gocyclo",
	"//go:noinline",
	"//nolint:errcheck,gocyclo\n//go:noinline",
}

func (c *Conc) docText(tok, pair, m string) string {
	field := c.fieldName(pair)
	sub := func(s string) string {
		return strings.ReplaceAll(strings.ReplaceAll(s, "%M", m), "%F", field)
	}
	switch tok {
	case "none":
		return ""
	case "gen":
		return fmt.Sprintf("// %s is the resolver for the %s field.", m, field)
	case "d1":
		return sub(docTextPool[pick(c.Seed, len(docTextPool), "doc", "d1", pair)])
	case "dd", "ddx":
		t := sub(docTextPool[pick(c.Seed, len(docTextPool), "doc", "dd", pair)])
		if tok == "ddx" {
			return t
		}
		return t + "\n//\n" + docDirectivePool[pick(c.Seed, len(docDirectivePool), "dir", pair)]
	}
	panic("unknown doc token " + tok)
}

// ---- helper declarations ----------------------------------------------------

var helperKinds = []string{"func", "type", "var", "const", "method"}

// helperText returns the declarations of helper token tok in resolver file
// rfile. Tokens in CmtToks ("hc") carry a /* */ comment INSIDE the
// declaration's extent.
func (c *Conc) helperText(tok, rfile string) (name string, decls []string) {
	name = "helper" + pUcFirst(tok) + pUcFirst(rfile)
	kind := helperKinds[pick(c.Seed, len(helperKinds), "helper", tok, rfile)]
	if tok == "hr" {
		// a helper method the user hung on the ROOT resolver struct (next to the resolvers that call it)
		recv := []string{"r *Resolver", "r Resolver", "_ *Resolver"}[pick(c.Seed, 3, "hrrecv", rfile)]
		return name, []string{fmt.Sprintf("func (%s) %s(x int) (n int, s string) {\n\tif x > 0 {\n\t\treturn x, \"}\"\n\t}\n\treturn 0, \"{\" + `\"`\n}", recv, name)}
	}
	cmt := strings.HasSuffix(tok, "c")
	k := func(s string) string {
		if cmt {
			return s
		}
		return ""
	}
	switch kind {
	case "func":
		return name, []string{fmt.Sprintf("func %s(x int) string {\n%s\tif x > 0 {\n\t\treturn \"}\"\n\t}\n\treturn \"{\" + `\"`\n}", name, k("\t/* helper block } comment */\n"))}
	case "type":
		return name, []string{fmt.Sprintf("type %s struct {\n\tA int%s\n\tB map[string][]int\n}", name, k(" /* unit */"))}
	case "var":
		return name, []string{fmt.Sprintf("var %s, %sB = 1%s + 1, \"two }\"", name, name, k(" /* one */"))}
	case "const":
		return name, []string{fmt.Sprintf("const (\n\t%s = iota%s + 1\n\t%sB\n)", name, k(" /* zero */"), name)}
	default: // method on another type: two declarations
		return name, []string{
			fmt.Sprintf("type %s int", name),
			fmt.Sprintf("func (h %s) Twice() int {\n\treturn int(h) * %s2\n}", name, k("/* times */ ")),
		}
	}
}

// ---- the root resolver struct --------------------------------------------------
//
// rootPool: what users make of `type Resolver struct{}` (the file notice of the
// follow-schema layout says "add any dependencies you require here"):
//
//	rf  fields added: sync primitives, maps, func-typed fields, anonymous struct fields, tags, trailing
//	    comments with braces, the one-line form
//	re  embedded types (values, pointers, an interface) and a doc comment attached to the declaration
//
// The texts reference only the packages sync, fmt and context (SetRoot adds the imports).
var rootPool = map[string][]string{
	"rf": {
		"type Resolver struct {\n\tmu    sync.Mutex\n\tstore map[string]int // by id, guarded by mu }\n\tLimit int `json:\"limit\"`\n}",
		"type Resolver struct {\n\tDB   map[string][]string\n\thook func(ctx context.Context, id string) (string, error)\n\topts struct {\n\t\tDebug bool\n\t\tDepth int // {\n\t}\n}",
		"type Resolver struct{ cache, index map[string]int }",
		"type Resolver struct {\n\tнаселение map[string]int // größe — 世界\n\tonce      sync.Once\n}",
	},
	"re": {
		"// Resolver is the root of the resolver tree; it carries what the\n// resolvers depend on { }.\ntype Resolver struct {\n\tsync.RWMutex\n\tfmt.Stringer\n\tname string\n}",
		"// Resolver wires the app's dependencies.\n//\n// Deprecated: nothing in here is generated.\ntype Resolver struct {\n\t*sync.WaitGroup // embedded pointer\n\tcontext.Context\n}",
		"/* Resolver: block doc comment */\ntype Resolver struct {\n\tsync.Mutex `json:\"-\"`\n}",
	},
}

func (c *Conc) rootText(tok string) string {
	p := rootPool[tok]
	if len(p) == 0 {
		panic("unknown root token " + tok)
	}
	return p[pick(c.Seed, len(p), "root", tok)]
}

// ---- names -------------------------------------------------------------------

func splitPair(p string) (typ, field string) {
	i := strings.Index(p, "_")
	return p[:i], p[i+1:]
}

func pUcFirst(s string) string {
	if s == "" {
		return s
	}
	return strings.ToUpper(s[:1]) + s[1:]
}

func pLcFirst(s string) string {
	if s == "" {
		return s
	}
	return strings.ToLower(s[:1]) + s[1:]
}

// ---- concrete names of types and fields ------------------------------------------
//
// The abstract pairs ("T_g") are concretised with names from pools that stress the
// generator's naming functions: initialisms (the receiver of URLInfo is
// uRLInfoResolver in the template but urlInfo... through ToGoPrivate), underscores
// (leading, embedded, trailing), digits, all-caps, single letters, names that differ
// only in case from Go keywords. The projection finds a method under whatever
// receiver / method name the generator emitted (case- and underscore-insensitive).

var typeNamePool = []string{"URLInfo", "HTTPResponse", "APIKey", "My_Type", "Trailing_", "T2x", "X", "API", "Func", "Type", "IPv4Addr", "T", "userIDInfo"}
var fieldNamePool = []string{"userID", "ipAddress", "my_field", "x", "f2go", "URL", "type", "range", "httpURL", "trailing_", "Mixed_Case_ID", "a1", "_lead", "g", "f1", "SHOUT"}

type pairName struct{ Type, Field string }

func normName(s string) string { return strings.ToLower(strings.ReplaceAll(s, "_", "")) }

// SetNames draws the concrete names for this project (seed, salt).
func (c *Conc) SetNames(salt string) {
	c.names = map[string]pairName{}
	types := map[string]string{"Query": "Query"}
	usedT := map[string]bool{"query": true, "mutation": true, "subscription": true}
	usedF := map[string]map[string]bool{}
	for _, p := range c.Pairs {
		at, af := splitPair(p)
		if _, ok := types[at]; !ok {
			for k := 0; ; k++ {
				cand := typeNamePool[pick(c.Seed, len(typeNamePool), "type", at, salt, fmt.Sprint(k))]
				if !usedT[normName(cand)] {
					usedT[normName(cand)] = true
					types[at] = cand
					break
				}
			}
		}
		if usedF[at] == nil {
			usedF[at] = map[string]bool{"id": true, "keep": true}
		}
		for k := 0; ; k++ {
			cand := fieldNamePool[pick(c.Seed, len(fieldNamePool), "field", p, salt, fmt.Sprint(k))]
			if !usedF[at][normName(cand)] {
				usedF[at][normName(cand)] = true
				c.names[p] = pairName{types[at], cand}
				break
			}
		}
		_ = af
	}
	c.typeNames = types
}

func (c *Conc) typeName(pair string) string {
	if n, ok := c.names[pair]; ok {
		return n.Type
	}
	t, _ := splitPair(pair)
	return t
}

func (c *Conc) fieldName(pair string) string {
	if n, ok := c.names[pair]; ok {
		return n.Field
	}
	_, f := splitPair(pair)
	return f
}

// concreteType maps an abstract type name to its concrete name.
func (c *Conc) concreteType(at string) string {
	if n, ok := c.typeNames[at]; ok {
		return n
	}
	return at
}

// Names returns the concrete names (for reports).
func (c *Conc) Names() map[string]string {
	o := map[string]string{}
	for _, p := range c.Pairs {
		o[p] = c.typeName(p) + "." + c.fieldName(p)
	}
	return o
}

func sortedCopy(s []string) []string {
	o := append([]string{}, s...)
	sort.Strings(o)
	return o
}
