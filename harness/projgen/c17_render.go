package projgen

// C17: configuration renderer, hand-written Go models, project writer and the
// outcome projection (generator outcome, go build, go vet).

import (
	"fmt"
	"hash/fnv"
	"math/rand"
	"os"
	"path/filepath"
	"regexp"
	"sort"
	"strings"
)

// c17ConfigYAML renders gqlgen.yml for a row.  phase: 0 = the row as is;
// for models = "bound": 1 = first pass (modelgen writes into package hand),
// 2 = second pass (no model block, autobind of package hand only).
func c17ConfigYAML(row C17Row, b *c17Builder, seed int64, phase int) string {
	// seeded choices keyed by what they decide (independent of each other)
	coin := func(key string) bool {
		h := fnv.New64a()
		_, _ = fmt.Fprintf(h, "%d/%s", seed, key)
		return (h.Sum64()>>7)%2 == 0
	}
	var sb strings.Builder
	w := func(f string, a ...any) { fmt.Fprintf(&sb, f, a...) }
	if row.B("schemaInExecDir") {
		// the schema files live inside the exec output directory (embedded by the follow-schema layout)
		w("schema:\n  - \"graph/*.graphqls\"\n")
	} else {
		w("schema:\n  - \"*.graphqls\"\n")
	}
	w("exec:\n")
	if row.B("execFollow") {
		w("  layout: follow-schema\n  dir: graph\n  package: graph\n")
	} else {
		if coin("layout") {
			w("  layout: single-file\n")
		}
		w("  filename: graph/generated.go\n  package: graph\n")
	}
	if wl := row.I("worker_limit"); wl > 0 || coin("wl") {
		w("  worker_limit: %d\n", wl)
	}
	mode := row.S("models")
	switch {
	case mode == "bound" && phase == 1:
		w("model:\n  filename: hand/models_gen.go\n  package: hand\n")
	case mode == "bound":
		// no model block
	default:
		w("model:\n  filename: graph/model/models_gen.go\n  package: model\n")
	}
	switch row.S("resolver") {
	case "single":
		w("resolver:\n  layout: single-file\n  filename: graph/resolver.go\n  package: graph\n")
	case "follow":
		w("resolver:\n  layout: follow-schema\n  dir: graph\n  package: graph\n")
		if coin("rtemplate") {
			w("  filename_template: \"{name}.resolvers.go\"\n")
		}
	}
	if row.S("resolver") != "none" && (row.B("omit_template_comment") || coin("otc")) {
		w("  omit_template_comment: %v\n", row.B("omit_template_comment"))
	}
	// autobind: the package of hand-written models (mixed / bound) and, with autobindModel, the MODEL OUTPUT
	// PACKAGE itself (graph/model; for models = bound the first pass generates into hand, so it is hand there)
	var ab []string
	if mode == "mixed" || (mode == "bound" && (phase == 2 || row.B("autobindModel"))) {
		ab = append(ab, b.base+"/hand")
	}
	if row.B("autobindModel") && mode != "bound" {
		ab = append(ab, b.base+"/graph/model")
	}
	if len(ab) > 0 {
		w("autobind:\n")
		for _, p := range ab {
			w("  - %q\n", p)
		}
	}
	if row.B("struct_tag") {
		w("struct_tag: json\n")
	}
	switch row.S("go_initialisms") {
	case "custom":
		w("go_initialisms:\n  replace_defaults: false\n  initialisms:\n    - 'CC'\n    - 'KYC'\n    - 'Db'\n")
	case "replace":
		w("go_initialisms:\n  replace_defaults: true\n  initialisms:\n    - 'CC'\n    - 'ID'\n    - 'KYC'\n")
	}
	// skip_mod_tidy is pinned: the project lives inside the harness module and the
	// sandbox is offline (go mod tidy would rewrite the harness go.mod).
	w("skip_mod_tidy: true\n")
	for _, k := range C17YamlBool {
		v := row.B(k)
		if v == C17Default(k).(bool) && coin(k) {
			continue // absent = default
		}
		w("%s: %v\n", k, v)
	}
	if len(b.models)+len(b.resolverFields) > 0 {
		w("models:\n")
		set := map[string]bool{}
		for k := range b.models {
			set[k] = true
		}
		for k := range b.resolverFields {
			set[k] = true
		}
		keys := make([]string, 0, len(set))
		for k := range set {
			keys = append(keys, k)
		}
		sort.Strings(keys)
		for _, k := range keys {
			w("  %s:\n", k)
			if m, ok := b.models[k]; ok {
				w("    model: %s\n", m)
			}
			if fs := b.resolverFields[k]; len(fs) > 0 {
				w("    fields:\n")
				for _, f := range fs {
					w("      %s:\n        resolver: true\n", f)
				}
			}
		}
	}
	return sb.String()
}

func c17HandFiles(row C17Row, b *c17Builder, seed int64) map[string]string {
	rng := rand.New(rand.NewSource(seed ^ 0x4a4d))
	out := map[string]string{}
	tag := func(name string) string {
		if row.B("struct_tag") {
			return " `json:\"" + name + "\"`"
		}
		return ""
	}
	if b.needHand["scalars"] {
		out["hand/mine.go"] = `package hand

import (
	"fmt"
	"io"
	"strconv"

	"github.com/99designs/gqlgen/graphql"
)

// MineValue is a user scalar implementing graphql.Marshaler / Unmarshaler.
type MineValue struct{ V string }

func (m *MineValue) UnmarshalGQL(v any) error {
	s, ok := v.(string)
	if !ok {
		return fmt.Errorf("MineValue must be a string")
	}
	m.V = s
	return nil
}

func (m MineValue) MarshalGQL(w io.Writer) { _, _ = io.WriteString(w, strconv.Quote(m.V)) }

// MarshalStampValue / UnmarshalStampValue bind a scalar to the basic type int64.
func MarshalStampValue(v int64) graphql.Marshaler {
	return graphql.WriterFunc(func(w io.Writer) { _, _ = io.WriteString(w, strconv.FormatInt(v, 10)) })
}

func UnmarshalStampValue(v any) (int64, error) {
	switch v := v.(type) {
	case int64:
		return v, nil
	case int:
		return int64(v), nil
	case string:
		return strconv.ParseInt(v, 10, 64)
	}
	return 0, fmt.Errorf("StampValue must be an integer")
}
`
	}
	if b.needHand["ext"] {
		nameField := "Name *string"
		if row.B("struct_tag") {
			nameField = "Label *string" + tag("name")
		}
		out["hand/ext.go"] = fmt.Sprintf(`package hand

// Ext is bound with @goModel.
type Ext struct {
	ID   string%s
	%s
	Size int%s
}
`, tag("id"), nameField, tag("size"))
	}
	if b.needHand["level"] {
		out["hand/level.go"] = `package hand

// Level is bound with @goModel, its constants with @goEnum.
type Level int

const (
	LevelLow Level = iota + 1
	LevelHigh
)
`
	}
	// the model output package holds hand-written Go next to models_gen.go
	mpkg, mname := c17ModelPkg(row)
	if row.B("autobindModel") || b.needHand["inmodel"] {
		// an autobound package must exist (and hold a Go file) before the first generation
		out[mpkg+"/doc.go"] = "// Package " + mname + " holds the hand-written models; gqlgen writes models_gen.go next to this file.\npackage " + mname + "\n"
	}
	if b.needHand["inmodel"] {
		label := "Label *string" + tag("label")
		if row.B("struct_tag") {
			label = "Caption *string" + tag("label")
		}
		out[mpkg+"/handkept.go"] = fmt.Sprintf(`package %s

// HandKept is maintained by hand next to the generated models; the GraphQL type HandKept binds to it
// (through autobind of this package, or through an explicit models: entry).
type HandKept struct {
	ID     string%s
	%s
	Amount int%s
	notes  []string
}

// Total is bound to the GraphQL field total.
func (h *HandKept) Total() int { return h.Amount + len(h.notes) }
`, mname, tag("id"), label, tag("amount"))
	}
	if b.needHand["mixed"] {
		var sb strings.Builder
		sb.WriteString("package hand\n\nimport (\n\t\"context\"\n\t\"fmt\"\n\t\"io\"\n\t\"strconv\"\n)\n\n")
		sb.WriteString("// Profile is a hand-written model found through autobind.\ntype Profile struct {\n")
		sb.WriteString("\tID string" + tag("id") + "\n")
		if row.B("struct_tag") {
			sb.WriteString("\tAlias *string" + tag("nick") + "\n")
		} else {
			sb.WriteString("\tNick *string\n")
		}
		sb.WriteString("\tAge " + []string{"*int", "*int64", "*int32", "int"}[rng.Intn(4)] + tag("age") + "\n")
		sb.WriteString("\tScore float64" + tag("score") + "\n")
		sb.WriteString("\tTags []string" + tag("tags") + "\n")
		if rng.Intn(2) == 0 {
			sb.WriteString("\tFriend *Profile" + tag("friend") + "\n")
		}
		sb.WriteString("\tunexported int\n}\n\n")
		sb.WriteString("func (p *Profile) Computed() string { return fmt.Sprint(p.ID, p.unexported) }\n\n")
		if rng.Intn(2) == 0 {
			sb.WriteString("func (p Profile) Lazy(ctx context.Context) (*int, error) { _ = ctx; return nil, nil }\n\n")
		} else {
			sb.WriteString("func (p *Profile) Lazy() (int, error) { return 0, nil }\n\nvar _ context.Context\n\n")
		}
		sb.WriteString(`// Mood is a hand-written enum.
type Mood string

const (
	MoodHappy Mood = "HAPPY"
	MoodSad   Mood = "SAD"
)

func (m *Mood) UnmarshalGQL(v any) error {
	s, ok := v.(string)
	if !ok {
		return fmt.Errorf("Mood must be a string")
	}
	*m = Mood(s)
	return nil
}

func (m Mood) MarshalGQL(w io.Writer) { _, _ = io.WriteString(w, strconv.Quote(string(m))) }

// ProfileInput is a hand-written input model.
type ProfileInput struct {
`)
		sb.WriteString("\tNick *string" + tag("nick") + "\n\tAge int" + tag("age") + "\n\tTags []string" + tag("tags") + "\n}\n")
		out["hand/core.go"] = sb.String()
	}
	return out
}

// C17Project is one rendered project (schema files, configuration, hand-written Go).
type C17Project struct {
	Root, Base string
	Row        C17Row
	Seed       int64
	NFiles     int
	Quirks     C17Quirks
	Files      map[string]string // relative path -> content (phase-0/1 gqlgen.yml)
	YAML2      string            // second-pass gqlgen.yml (models = bound), else ""
	// GraphQL type -> fields with `resolver: true` in the models: block (renderer self-check)
	ResolverFields map[string][]string `json:"-"`
}

var c17OwnedHand = []string{"hand/mine.go", "hand/ext.go", "hand/level.go", "hand/core.go", "hand/doc.go", "hand/handkept.go",
	"graph/model/doc.go", "graph/model/handkept.go"}

// c17ModelPkg: directory (relative to the project root) and package name of the model output package.
func c17ModelPkg(row C17Row) (dir, name string) {
	if row.S("models") == "bound" {
		return "hand", "hand" // the first pass generates the models into package hand
	}
	return "graph/model", "model"
}

// C17Render renders the project of a row (nothing is written).
func C17Render(root, importBase string, row C17Row, seed int64, nfiles int) *C17Project {
	quirks := row.Quirks()
	b := c17BuildSchema(row, seed, importBase)
	p := &C17Project{Root: root, Base: importBase, Row: row, Seed: seed, NFiles: nfiles, Quirks: quirks, Files: map[string]string{}, ResolverFields: b.resolverFields}
	for k, v := range b.SDLFiles(nfiles) {
		if row.B("schemaInExecDir") {
			k = "graph/" + k
		}
		p.Files[k] = v
	}
	for k, v := range c17HandFiles(row, b, seed) {
		p.Files[k] = v
	}
	// the project root is a package of its own (like the server command of a real project):
	// without a model block gqlgen's default model file is <root>/models_gen.go and the
	// validation pass loads that package
	p.Files["doc.go"] = "// Package scratch is the root of a generated C17 project.\npackage scratch\n"
	if row.S("models") == "bound" {
		p.Files["gqlgen.yml"] = c17ConfigYAML(row, b, seed, 1)
		p.YAML2 = c17ConfigYAML(row, b, seed, 2)
	} else {
		p.Files["gqlgen.yml"] = c17ConfigYAML(row, b, seed, 0)
	}
	return p
}

// Write puts the rendered files into Root (creating it); schema files and
// hand-written Go files of an earlier rendering are replaced, everything else in
// the directory (earlier generator output) is left alone.
func (p *C17Project) Write() error {
	if err := os.MkdirAll(p.Root, 0o755); err != nil {
		return err
	}
	old, _ := filepath.Glob(filepath.Join(p.Root, "*.graphqls"))
	old2, _ := filepath.Glob(filepath.Join(p.Root, "graph", "*.graphqls"))
	for _, f := range append(old, old2...) {
		_ = os.Remove(f)
	}
	for _, f := range c17OwnedHand {
		_ = os.Remove(filepath.Join(p.Root, f))
	}
	for rel, content := range p.Files {
		full := filepath.Join(p.Root, rel)
		if err := os.MkdirAll(filepath.Dir(full), 0o755); err != nil {
			return err
		}
		if err := os.WriteFile(full, []byte(content), 0o644); err != nil {
			return err
		}
	}
	return nil
}

// C17RenderProject writes SDL files + gqlgen.yml (+ hand-written Go) of a row
// into root (entry point for other drivers; for models = "bound" the first-pass
// configuration is written).
func C17RenderProject(root, importBase string, row C17Row, seed int64) error {
	return C17Render(root, importBase, row, seed, 2+int(seed%2)).Write()
}

// C17Outcome is the projection compared with the outcome the specification
// prescribes ([ok |-> TRUE, compiles |-> TRUE]).
type C17Outcome struct {
	Gen      string  `json:"gen"`        // ok | error | cfgerror | panic | timeout | crash
	Pass     int     `json:"pass"`       // generator pass that failed (models = bound has two)
	Build    bool    `json:"typechecks"` // all generated packages type-check (go vet's type-check; go build when run)
	Vet      bool    `json:"vet"`        // no vet analyzer diagnostic
	VetRun   bool    `json:"vet_run"`
	BuildRun bool    `json:"build_run"` // go build ./... was run as well
	Kind     string  `json:"kind"`      // "" | gen-error | gen-panic | gen-timeout | gen-crash | build | vet
	Class    string  `json:"class"`     // normalised first message
	Detail   string  `json:"detail"`
	WallS    float64 `json:"wall_s"`
}

func (o C17Outcome) OK() bool { return o.Kind == "" }
func (o C17Outcome) Infra() bool {
	return o.Kind == "gen-timeout" || o.Kind == "gen-crash" || o.Kind == "infra"
}
func (o C17Outcome) Ok() bool       { return o.Gen == "ok" }
func (o C17Outcome) Compiles() bool { return o.Gen == "ok" && o.Build && o.Vet }

var c17ReValidation = regexp.MustCompile(`(?s)pgen: generate: validation failed: packages\.Load:.*?\n[^\n]*?\.go:\d+:\d+: ([^\n]*)`)

var (
	c17ReLoc   = regexp.MustCompile(`^[^\s:]+\.(go|graphqls|yml):\d+(:\d+)?:?\s*`)
	c17ReIdent = regexp.MustCompile(`[A-Za-z_./*\[\]ᚖᚕᚋᚐ0-9]*([A-Z0-9_./ᚖᚕᚋᚐ]|[a-z]\*)[A-Za-z_./*\[\]ᚖᚕᚋᚐ0-9]*`)
	c17ReQuote = regexp.MustCompile("\"[^\"]*\"|`[^`]*`|'[^']*'")
	c17ReSpace = regexp.MustCompile(`\s+`)
)

// c17Normalize turns a compiler / generator message into a class that does not
// depend on seeded names, paths and positions.
func c17Normalize(msg string) string {
	msg = strings.TrimSpace(msg)
	for i := 0; i < 3; i++ {
		msg = c17ReLoc.ReplaceAllString(msg, "")
	}
	msg = c17ReQuote.ReplaceAllString(msg, "Q")
	msg = c17ReIdent.ReplaceAllString(msg, "_")
	msg = c17ReSpace.ReplaceAllString(msg, " ")
	if len(msg) > 90 {
		msg = msg[:90]
	}
	return msg
}

func c17FirstError(out string) string {
	for _, ln := range strings.Split(out, "\n") {
		t := strings.TrimSpace(ln)
		if t == "" || strings.HasPrefix(t, "#") || strings.HasPrefix(t, "go: ") {
			continue
		}
		return t
	}
	return strings.TrimSpace(out)
}

func c17GenError(stderr string) string {
	lines := strings.Split(stderr, "\n")
	for i, ln := range lines {
		if strings.HasPrefix(ln, "pgen: generate:") || strings.HasPrefix(ln, "pgen: config:") {
			msg := strings.TrimSpace(strings.SplitN(ln, ":", 3)[2])
			// "validation failed: packages.Load: <file:line:col>: message" - keep the message
			if strings.HasSuffix(msg, ":") && i+1 < len(lines) {
				msg += " " + lines[i+1]
			}
			return msg
		}
		if strings.HasPrefix(ln, "pgen: panic:") {
			return strings.TrimSpace(strings.TrimPrefix(ln, "pgen: panic:"))
		}
	}
	return c17FirstError(stderr)
}

func c17Tail(s string, n int) string {
	if len(s) > n {
		return "..." + s[len(s)-n:]
	}
	return s
}

func c17Head(s string, n int) string {
	if len(s) > n {
		return s[:n] + "..."
	}
	return s
}

// Generate runs the real generator on the written project (both passes for
// models = bound), then go vet ./... (type-check of all generated packages +
// analyzers) and, if build is set, go build ./... as well.
func (p *C17Project) Generate(build bool) C17Outcome {
	o := C17Outcome{Build: false, Vet: false}
	opts := GenOpts{Explicit: true}
	if p.Row.B("stub") {
		opts = GenOpts{Stub: "graph/stub.go"}
	}
	passes := 1
	if p.YAML2 != "" {
		passes = 2
	}
	for pass := 1; pass <= passes; pass++ {
		if pass == 2 {
			if err := os.WriteFile(filepath.Join(p.Root, "gqlgen.yml"), []byte(p.YAML2), 0o644); err != nil {
				o.Kind, o.Detail = "infra", err.Error()
				return o
			}
		}
		g := RunGen(p.Root, opts)
		o.WallS += g.WallS
		o.Gen, o.Pass = g.Class, pass
		if !g.OK() {
			switch g.Class {
			case "panic":
				o.Kind = "gen-panic"
			case "timeout":
				o.Kind = "gen-timeout"
			case "crash":
				o.Kind = "gen-crash"
			default:
				o.Kind = "gen-error"
			}
			o.Class = c17Normalize(c17GenError(g.Stderr))
			o.Detail = fmt.Sprintf("generator pass %d: %s\n%s", pass, g.Class, c17Tail(g.Stderr, 3000))
			if m := c17ReValidation.FindStringSubmatch(g.Stderr); m != nil && g.Class == "error" {
				// skip_validation: false - the generator's own type-check of its output failed:
				// the same thing go build reports when validation is skipped
				o.Kind = "build"
				o.Class = c17Normalize(m[1])
			}
			return o
		}
	}
	// go vet type-checks every generated package from source (go/types) after compiling
	// the packages it depends on, and runs the vet analyzers: a type error is reported
	// as "vet: <pos>: <message>".
	out, err := GoVet(p.Root)
	o.VetRun = true
	if err != nil {
		if strings.Contains(err.Error(), "timeout after") {
			o.Kind, o.Detail = "infra", "go vet: "+err.Error()
			return o
		}
		first := ""
		typeErr := false
		for _, ln := range strings.Split(out, "\n") {
			t := strings.TrimSpace(ln)
			if t == "" || strings.HasPrefix(t, "#") || strings.HasPrefix(t, "go: ") {
				continue
			}
			if first == "" {
				first = t
			}
			if strings.HasPrefix(t, "vet: ") || strings.Contains(t, "syntax error") || strings.Contains(t, "typecheck") {
				typeErr = true
				first = strings.TrimPrefix(t, "vet: ")
				break
			}
		}
		// analyzer diagnostics are listed under a "# [pkg]" header; without it the lines are
		// compile errors of a package the vetted ones depend on (models, hand-written package)
		if typeErr || !c17ReLoc.MatchString(first) || !strings.Contains(out, "\n# [") {
			// type / syntax error, or a compile error in a package the vetted one depends on
			o.Kind = "build"
		} else {
			o.Kind = "vet"
			o.Build = true
		}
		o.Class = c17Normalize(first)
		o.Detail = "go vet ./...: " + c17Head(out, 3000)
		return o
	}
	o.Build, o.Vet = true, true
	if !build {
		return o
	}
	// the compiler proper, for a subset of the points
	o.BuildRun = true
	out, err = GoBuild(p.Root)
	if err != nil {
		if strings.Contains(err.Error(), "timeout after") {
			o.Kind, o.Detail = "infra", "go build: "+err.Error()
			return o
		}
		o.Build = false
		o.Kind = "build"
		o.Class = c17Normalize(c17FirstError(out))
		o.Detail = "go build ./...: " + c17Head(out, 3000)
		return o
	}
	return o
}

// C17FixedRows returns a few rows without running TLC (for other drivers that
// only need feature-rich projects): all features with default configuration,
// and two mixed ones.
func C17FixedRows() []C17Row {
	mk := func(on func(f string) bool) C17Row {
		r := C17Row{}
		for _, f := range C17Factors() {
			r[f] = C17Default(f)
		}
		for _, f := range C17SchemaBool {
			r[f] = on(f)
		}
		return r
	}
	all := mk(func(string) bool { return true })
	// autobind of the model output package: with (all) and without (even) a hand-written model in it;
	// odd binds the hand-written model by an explicit models: entry
	all["autobindModel"] = true
	even := mk(func(f string) bool { return len(f)%2 == 0 })
	even["execFollow"], even["resolver"], even["autobindModel"] = true, "follow", true
	odd := mk(func(f string) bool { return len(f)%2 == 1 })
	odd["use_function_syntax_for_execution_context"], odd["worker_limit"] = true, 2
	return []C17Row{all, even, odd}
}
