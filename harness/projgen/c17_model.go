package projgen

// C17: rows of spec/ProjectCover.tla on the Go side.

import (
	"encoding/json"
	"fmt"
	"sort"
	"strings"
)

// C17Row is one assignment factor -> value as exported by TLC (booleans,
// strings, and the integer worker_limit).
type C17Row map[string]any

// C17SchemaBool / C17ConfigBool mirror SchemaBool / ConfigBool of the spec (the
// driver cross-checks the factor set of every exported row against them).
var C17SchemaBool = []string{
	"iface", "ifaceChain", "union", "enum", "input", "lists", "defaults", "dirType", "dirExec",
	"builtinDir", "mutation", "subscription", "extend", "scalars", "idKeyword", "idInitialism",
	"idUnderscore", "idEnumClash", "idTypeClash",
	"handInModel", "ifaceOrphan", // SchemaLate of the spec
}

// C17YamlBool are the ConfigBool factors that are literally boolean keys of gqlgen.yml.
var C17YamlBool = []string{
	"omit_slice_element_pointers", "omit_getters", "omit_interface_checks", "omit_complexity",
	"omit_gqlgen_file_notice", "omit_gqlgen_version_in_file_notice", "omit_root_models",
	"omit_resolver_fields", "omit_panic_handler", "use_function_syntax_for_execution_context",
	"call_argument_directives_with_null", "struct_fields_always_pointers",
	"return_pointers_in_unmarshalinput", "resolvers_always_return_pointers",
	"nullable_input_omittable", "enable_model_json_omitempty_tag", "enable_model_json_omitzero_tag",
	"skip_validation",
}

var C17OtherBool = []string{"execFollow", "omit_template_comment", "struct_tag", "stub", "autobindModel", "schemaInExecDir"}

var C17Multi = []string{"worker_limit", "go_initialisms", "models", "resolver"}

// C17KnownDefect mirrors KnownDefect of the spec: constructs that trigger known
// generator defects; pinned to FALSE in the cover, TRUE in one probe row each.
var C17KnownDefect = []string{"q_nestedNullMix", "q_dirArgPredeclared", "q_funcSyntaxGoEnum", "q_stubKeywordType",
	"q_argNamedPanic", "q_autobindIntrospection", "q_valueStructCycle3", "q_leadUnderscoreTypeResolver"}

// C17Held mirrors Held of the spec (fixed along an evolution).
var C17Held = map[string]bool{"execFollow": true, "resolver": true, "models": true, "stub": true, "schemaInExecDir": true}

// C17Factors is the full, ordered factor list.
func C17Factors() []string {
	var out []string
	out = append(out, C17SchemaBool...)
	out = append(out, C17YamlBool...)
	out = append(out, C17OtherBool...)
	out = append(out, C17Multi...)
	out = append(out, C17KnownDefect...)
	return out
}

// C17Default mirrors Default(f) of the spec.
func C17Default(f string) any {
	switch f {
	case "worker_limit":
		return 0
	case "go_initialisms":
		return "default"
	case "models":
		return "gen"
	case "resolver":
		return "single"
	case "struct_fields_always_pointers", "resolvers_always_return_pointers",
		"enable_model_json_omitempty_tag":
		return true
	}
	return false
}

func (r C17Row) B(k string) bool {
	v, ok := r[k].(bool)
	if !ok {
		panic(fmt.Sprintf("c17 row: factor %q is not boolean: %v", k, r[k]))
	}
	return v
}

func (r C17Row) S(k string) string {
	v, ok := r[k].(string)
	if !ok {
		panic(fmt.Sprintf("c17 row: factor %q is not a string: %v", k, r[k]))
	}
	return v
}

func (r C17Row) I(k string) int {
	switch v := r[k].(type) {
	case float64:
		return int(v)
	case int:
		return v
	case json.Number:
		n, _ := v.Int64()
		return int(n)
	}
	panic(fmt.Sprintf("c17 row: factor %q is not a number: %v", k, r[k]))
}

// Normalize checks that the row carries exactly the known factors and turns
// numbers into int.
func (r C17Row) Normalize() error {
	fs := C17Factors()
	if len(r) != len(fs) {
		return fmt.Errorf("row has %d factors, harness knows %d", len(r), len(fs))
	}
	for _, f := range fs {
		v, ok := r[f]
		if !ok {
			return fmt.Errorf("row lacks factor %q", f)
		}
		switch C17Default(f).(type) {
		case bool:
			if _, ok := v.(bool); !ok {
				return fmt.Errorf("factor %q: want boolean, got %v", f, v)
			}
		case string:
			if _, ok := v.(string); !ok {
				return fmt.Errorf("factor %q: want string, got %v", f, v)
			}
		case int:
			r[f] = r.I(f)
		}
	}
	return nil
}

func (r C17Row) Clone() C17Row {
	o := C17Row{}
	for k, v := range r {
		o[k] = v
	}
	return o
}

// IsDefault reports whether factor f has its default value in r.
func (r C17Row) IsDefault(f string) bool {
	return fmt.Sprint(r[f]) == fmt.Sprint(C17Default(f))
}

// NonDefault lists (sorted) the factors that differ from their default.
func (r C17Row) NonDefault() []string {
	var out []string
	for _, f := range C17Factors() {
		if !r.IsDefault(f) {
			out = append(out, f)
		}
	}
	sort.Strings(out)
	return out
}

// Label renders factor=value for the non-default factors in fs.
func (r C17Row) Label(fs []string) string {
	var parts []string
	for _, f := range fs {
		switch v := r[f].(type) {
		case bool:
			if v {
				parts = append(parts, f)
			} else {
				parts = append(parts, "!"+f)
			}
		default:
			parts = append(parts, fmt.Sprintf("%s=%v", f, v))
		}
	}
	return strings.Join(parts, "+")
}

// Quirks returns the known-defect constructs the row selects (without the q_ prefix).
func (r C17Row) Quirks() C17Quirks {
	q := C17Quirks{}
	for _, f := range C17KnownDefect {
		if v, ok := r[f].(bool); ok && v {
			q[strings.TrimPrefix(f, "q_")] = true
		}
	}
	return q
}

// Probe names the known-defect construct of a probe row ("" for a cover row).
func (r C17Row) Probe() string {
	for _, f := range C17KnownDefect {
		if v, ok := r[f].(bool); ok && v {
			return strings.TrimPrefix(f, "q_")
		}
	}
	return ""
}

// ClassKey is the row class recorded in the evidence: the multi-valued part +
// the layouts + how many schema features / options are on.
func (r C17Row) ClassKey() string {
	ns, nc := 0, 0
	for _, f := range C17SchemaBool {
		if r.B(f) {
			ns++
		}
	}
	for _, f := range C17YamlBool {
		if !r.IsDefault(f) {
			nc++
		}
	}
	if p := r.Probe(); p != "" {
		return "probe:" + p
	}
	return fmt.Sprintf("wl=%d/init=%s/models=%s/resolver=%s/execFollow=%v/stub=%v/autobindModel=%v/features=%d/opts=%d",
		r.I("worker_limit"), r.S("go_initialisms"), r.S("models"), r.S("resolver"), r.B("execFollow"), r.B("stub"), r.B("autobindModel"), ns, nc)
}
