package main

import (
	"fmt"
	"sync"
	"sync/atomic"
	_ "unsafe"

	"github.com/vektah/gqlparser/v2/validator"
	"github.com/vektah/gqlparser/v2/validator/rules"
)

//go:linkname specifiedRules github.com/vektah/gqlparser/v2/validator.specifiedRules
var specifiedRules []validator.Rule

func main() {
	hist := map[string]int{}
	for trial := 0; trial < 5000; trial++ {
		validator.RemoveRule(rules.FieldsOnCorrectTypeRuleWithoutSuggestions.Name)
		validator.RemoveRule("")
		validator.ReplaceRule("FieldsOnCorrectType", rules.FieldsOnCorrectTypeRule.RuleFunc)
		var arrived atomic.Int32
		var wg sync.WaitGroup
		for g := 0; g < 2; g++ {
			wg.Add(1)
			go func() {
				defer wg.Done()
				arrived.Add(1)
				for arrived.Load() < 2 {
				}
				validator.RemoveRule("FieldsOnCorrectType")
				rule := rules.FieldsOnCorrectTypeRuleWithoutSuggestions
				validator.ReplaceRule(rule.Name, rule.RuleFunc)
			}()
		}
		wg.Wait()
		s := specifiedRules
		nz, ns, foct := 0, 0, 0
		for _, r := range s {
			if r.RuleFunc == nil {
				nz++
			}
			if r.Name == rule().Name {
				ns++
			}
			if r.Name == "FieldsOnCorrectType" {
				foct++
			}
		}
		hist[fmt.Sprintf("len=%d cap=%d zero=%d ns=%d foct=%d", len(s), cap(s), nz, ns, foct)]++
	}
	for k, v := range hist {
		fmt.Println(v, k)
	}
}

func rule() validator.Rule { return rules.FieldsOnCorrectTypeRuleWithoutSuggestions }
