package c03lib

import (
	"bytes"
	"context"
	"encoding/json"
	"io"

	"github.com/vektah/gqlparser/v2"
	"github.com/vektah/gqlparser/v2/ast"

	"github.com/99designs/gqlgen/graphql"
)

const SchemaSDL = `
directive @onField(x: Int) on FIELD
directive @onQuery on QUERY
interface Node {
	id: Int!
}
enum Kind {
	A
	B
}
input Filter {
	min: Int
	tag: String!
}
union Result = User | Pet
type Query {
	name: String!
	find(id: Int!): String!
	user: User
	node: Node
	search(text: String, kind: Kind, filter: Filter, ids: [Int!]): [Result!]
	flag(on: Boolean!): Boolean
	ratio(f: Float): Float
}
type User implements Node {
	id: Int!
	name: String!
	friend: User
}
type Pet implements Node {
	id: Int!
	nick: String
}
type Mutation {
	setName(v: String!): String!
}
type Subscription {
	tick: Int!
	tock: Int!
}
`

// QueryOnlySDL is a schema without mutation and subscription roots (the only
// way to violate the KnownRootType rule).
const QueryOnlySDL = `
type Query {
	name: String!
}
`

// SubscriptionResponses is how many data responses a subscription yields
// before its response handler returns nil.
const SubscriptionResponses = 2

// ES is a hand-written graphql.ExecutableSchema (no generated code). It
// executes the selected operation sequentially the way generated code nests
// the middleware: every root field through RootResolverMiddleware, every field
// (root or nested) through ResolverMiddleware; children of an object run after
// the parent's field middleware returned, still inside the root-field
// middleware. Exec and every resolver log one event.
type ES struct {
	schema *ast.Schema
	// OnSchema, if set, is called at the start of every Schema() call. The
	// executor calls Schema() after the rule swap and right before
	// validator.Validate, and again for variable coercion.
	OnSchema func()
}

func NewES() *ES {
	return &ES{schema: gqlparser.MustLoadSchema(&ast.Source{Input: SchemaSDL})}
}

// NewQueryOnlyES serves QueryOnlySDL.
func NewQueryOnlyES() *ES {
	return &ES{schema: gqlparser.MustLoadSchema(&ast.Source{Input: QueryOnlySDL})}
}

// AST returns the schema without going through the (hookable) Schema method.
func (e *ES) AST() *ast.Schema { return e.schema }

func (e *ES) Schema() *ast.Schema {
	if e.OnSchema != nil {
		e.OnSchema()
	}
	return e.schema
}

func (e *ES) Complexity(ctx context.Context, typeName, fieldName string, childComplexity int, args map[string]any) (int, bool) {
	return 0, false
}

func (e *ES) Exec(ctx context.Context) graphql.ResponseHandler {
	ri := info(ctx)
	ri.T.Log(ri.ID, "exec", "call", 0, "")
	oc := graphql.GetOperationContext(ctx)
	op := oc.Operation
	if op == nil {
		// dispatched although no operation was ever selected (a request that did not
		// pass its gates): the "exec" event above is the observation; do not crash
		return graphql.OneShot(&graphql.Response{Data: json.RawMessage(`{}`)})
	}
	max := 1
	if op.Operation == ast.Subscription {
		max = SubscriptionResponses
	}
	n := 0
	return func(ctx context.Context) *graphql.Response {
		if n >= max {
			return nil
		}
		n++
		return e.respond(ctx, oc, op)
	}
}

func rootName(op *ast.OperationDefinition) string {
	switch op.Operation {
	case ast.Mutation:
		return "Mutation"
	case ast.Subscription:
		return "Subscription"
	}
	return "Query"
}

func (e *ES) respond(ctx context.Context, oc *graphql.OperationContext, op *ast.OperationDefinition) *graphql.Response {
	var buf bytes.Buffer
	buf.WriteByte('{')
	first := true
	for _, sel := range op.SelectionSet {
		f, ok := sel.(*ast.Field)
		if !ok {
			continue
		}
		fctx := graphql.WithFieldContext(ctx, &graphql.FieldContext{
			Object:     rootName(op),
			Field:      graphql.CollectedField{Field: f, Selections: f.SelectionSet},
			IsResolver: true,
		})
		m := oc.RootResolverMiddleware(fctx, func(ctx context.Context) graphql.Marshaler {
			return e.field(ctx, oc, f)
		})
		if !first {
			buf.WriteByte(',')
		}
		first = false
		k, _ := json.Marshal(f.Alias)
		buf.Write(k)
		buf.WriteByte(':')
		if m == nil {
			buf.WriteString("null")
		} else {
			m.MarshalGQL(&buf)
		}
	}
	buf.WriteByte('}')
	return &graphql.Response{Data: json.RawMessage(buf.Bytes())}
}

type rawJSON []byte

func (r rawJSON) MarshalGQL(w io.Writer) { _, _ = w.Write(r) }

// field resolves one field (ctx already carries its FieldContext) and then
// its sub-selection.
func (e *ES) field(ctx context.Context, oc *graphql.OperationContext, f *ast.Field) graphql.Marshaler {
	ri := info(ctx)
	v, err := oc.ResolverMiddleware(ctx, func(ctx context.Context) (any, error) {
		ri.T.Log(ri.ID, "res", "call", 0, fieldPath(ctx))
		if len(f.SelectionSet) > 0 {
			return struct{}{}, nil
		}
		if f.Definition != nil && f.Definition.Type.Name() == "Int" {
			return 1, nil
		}
		return "v", nil
	})
	if err != nil || v == nil {
		return graphql.Null
	}
	if len(f.SelectionSet) == 0 {
		b, _ := json.Marshal(v)
		return rawJSON(b)
	}
	var buf bytes.Buffer
	buf.WriteByte('{')
	first := true
	obj := "?"
	if f.Definition != nil {
		obj = f.Definition.Type.Name()
	}
	for _, sel := range f.SelectionSet {
		c, ok := sel.(*ast.Field)
		if !ok {
			continue
		}
		cctx := graphql.WithFieldContext(ctx, &graphql.FieldContext{
			Object:     obj,
			Field:      graphql.CollectedField{Field: c, Selections: c.SelectionSet},
			IsResolver: true,
		})
		m := e.field(cctx, oc, c)
		if !first {
			buf.WriteByte(',')
		}
		first = false
		k, _ := json.Marshal(c.Alias)
		buf.Write(k)
		buf.WriteByte(':')
		m.MarshalGQL(&buf)
	}
	buf.WriteByte('}')
	return rawJSON(buf.Bytes())
}

// Root describes one root field of an operation and the fields below it in
// the order the ES resolves them (depth first, document order).
type Root struct {
	F   string   `json:"f"`
	Sub []string `json:"sub"`
}

// RootsOf computes, from the parsed operation, the field structure the ES
// would walk (also for documents that fail validation, so that an execution
// that should not have happened can still be described).
func RootsOf(op *ast.OperationDefinition) []Root {
	out := []Root{}
	if op == nil {
		return out
	}
	for _, sel := range op.SelectionSet {
		f, ok := sel.(*ast.Field)
		if !ok {
			continue
		}
		r := Root{F: f.Alias, Sub: []string{}}
		var walk func(prefix string, ss ast.SelectionSet)
		walk = func(prefix string, ss ast.SelectionSet) {
			for _, s := range ss {
				c, ok := s.(*ast.Field)
				if !ok {
					continue
				}
				p := prefix + "." + c.Alias
				r.Sub = append(r.Sub, p)
				walk(p, c.SelectionSet)
			}
		}
		walk(f.Alias, f.SelectionSet)
		out = append(out, r)
	}
	return out
}
