package c03lib

import (
	"fmt"
	"sort"

	"github.com/vektah/gqlparser/v2/ast"
	"github.com/vektah/gqlparser/v2/parser"
	"github.com/vektah/gqlparser/v2/validator"
)

// RuleDoc is a hand-written document tied to one default validation rule of
// gqlparser: Invalid documents are rejected by exactly that rule (and by no
// other), NearMiss documents are valid documents that come close to
// violating it.
type RuleDoc struct {
	Rule   string         `json:"rule"`
	Query  string         `json:"query"`
	OpName string         `json:"opname,omitempty"`
	Vars   map[string]any `json:"vars,omitempty"`
	QOnly  bool           `json:"qonly,omitempty"` // against QueryOnlySDL
	// Also names rules that unavoidably fire together with Rule (the document
	// is then not "exactly one rule", which is said here explicitly).
	Also []string `json:"also,omitempty"`
}

// InvalidByRule: "systematically invalidated variants" - one class per
// default rule (FieldsOnCorrectType is the unknown-field kind, see unkDocs).
var InvalidByRule = []RuleDoc{
	{Rule: "FragmentsOnCompositeTypes", Query: "{ name ... on Kind { __typename } }"},
	{Rule: "FragmentsOnCompositeTypes", Query: "{ name ...F } fragment F on Int { __typename }"},
	{Rule: "KnownArgumentNames", Query: "{ find(id: 1, bogus: 2) }"},
	{Rule: "KnownArgumentNames", Query: "{ name @onField(y: 1) }"},
	{Rule: "KnownDirectives", Query: "{ name @nodir }"},
	{Rule: "KnownDirectives", Query: "{ name @onQuery }"},
	{Rule: "KnownDirectives", Query: "query Q @onField { name }"},
	{Rule: "KnownFragmentNames", Query: "{ name ...Missing }"},
	{Rule: "KnownFragmentNames", Query: "{ user { ...Nope id } }"},
	{Rule: "KnownTypeNames", Query: "{ user { ... on Nope { id } } }"},
	{Rule: "KnownTypeNames", Query: "{ user { ...F } } fragment F on Nope { id }"},
	{Rule: "LoneAnonymousOperation", Query: "{ name } query A { name }"},
	{Rule: "LoneAnonymousOperation", Query: "mutation M { setName(v: \"x\") } { user { id } }", OpName: "M"},
	{Rule: "NoFragmentCycles", Query: "{ user { ...A } } fragment A on User { id ...B } fragment B on User { ...A }"},
	{Rule: "NoFragmentCycles", Query: "{ user { ...A } } fragment A on User { friend { ...A } }"},
	{Rule: "NoUndefinedVariables", Query: "{ find(id: $id) }"},
	{Rule: "NoUndefinedVariables", Query: "query Q($a: Int!) { find(id: $a) flag(on: $b) }", Vars: map[string]any{"a": 1}},
	{Rule: "NoUnusedFragments", Query: "{ name } fragment F on Query { name }"},
	{Rule: "NoUnusedFragments", Query: "query Q { user { id } } fragment G on User { id }"},
	{Rule: "NoUnusedVariables", Query: "query Q($x: Int) { name }"},
	{Rule: "NoUnusedVariables", Query: "query Q($id: Int!, $y: String) { find(id: $id) }", Vars: map[string]any{"id": 1}},
	{Rule: "OverlappingFieldsCanBeMerged", Query: "{ x: name x: find(id: 1) }"},
	{Rule: "OverlappingFieldsCanBeMerged", Query: "{ find(id: 1) find(id: 2) }"},
	{Rule: "OverlappingFieldsCanBeMerged", Query: "{ user { n: id } user { n: name } }"},
	{Rule: "PossibleFragmentSpreads", Query: "{ user { ... on Pet { nick } } }"},
	{Rule: "PossibleFragmentSpreads", Query: "{ user { ...P } } fragment P on Pet { id }"},
	{Rule: "ProvidedRequiredArguments", Query: "{ find }"},
	{Rule: "ProvidedRequiredArguments", Query: "mutation { setName }"},
	{Rule: "ProvidedRequiredArguments", Query: "{ name flag }"},
	{Rule: "ScalarLeafs", Query: "{ user }"},
	{Rule: "ScalarLeafs", Query: "{ user { friend } }"},
	{Rule: "ScalarLeafs", Query: "{ node }"},
	{Rule: "SingleFieldSubscriptions", Query: "subscription { tick tock }"},
	{Rule: "SingleFieldSubscriptions", Query: "subscription S { tick ... on Subscription { tock } }"},
	{Rule: "UniqueArgumentNames", Query: "{ find(id: 1, id: 2) }"},
	{Rule: "UniqueArgumentNames", Query: "{ name @onField(x: 1, x: 1) }"},
	{Rule: "UniqueDirectivesPerLocation", Query: "{ name @onField @onField }"},
	{Rule: "UniqueDirectivesPerLocation", Query: "query Q @onQuery @onQuery { name }"},
	{Rule: "UniqueFragmentNames", Query: "{ ...F } fragment F on Query { name } fragment F on Query { name }"},
	{Rule: "UniqueInputFieldNames", Query: "{ search(filter: {tag: \"a\", tag: \"b\"}) { __typename } }"},
	{Rule: "UniqueOperationNames", Query: "query A { name } query A { user { id } }", OpName: "A"},
	{Rule: "UniqueOperationNames", Query: "query A { name } mutation A { setName(v: \"x\") }", OpName: "A"},
	{Rule: "UniqueVariableNames", Query: "query Q($x: Int!, $x: Int!) { find(id: $x) }", Vars: map[string]any{"x": 1}, Also: []string{"NoUnusedVariables"}},
	{Rule: "ValuesOfCorrectType", Query: "{ find(id: \"s\") }"},
	{Rule: "ValuesOfCorrectType", Query: "{ search(kind: C) { __typename } }"},
	{Rule: "ValuesOfCorrectType", Query: "{ search(filter: {tag: 3}) { __typename } }"},
	{Rule: "ValuesOfCorrectType", Query: "{ flag(on: null) }"},
	{Rule: "ValuesOfCorrectType", Query: "{ search(ids: [1, \"2\"]) { __typename } }"},
	{Rule: "VariablesAreInputTypes", Query: "query Q($u: User) { search(filter: $u) { __typename } }", Also: []string{"VariablesInAllowedPosition"}},
	{Rule: "VariablesAreInputTypes", Query: "query Q($u: Result) { name }", Also: []string{"NoUnusedVariables"}},
	{Rule: "VariablesInAllowedPosition", Query: "query Q($id: String) { find(id: $id) }", Vars: map[string]any{"id": "1"}},
	{Rule: "VariablesInAllowedPosition", Query: "query Q($id: Int) { find(id: $id) }", Vars: map[string]any{"id": 1}},
	{Rule: "VariablesInAllowedPosition", Query: "query Q($k: String) { search(kind: $k) { __typename } }", Vars: map[string]any{"k": "A"}},
	{Rule: "VariablesInAllowedPosition", Query: "query Q($on: Boolean) { flag(on: $on) }", Vars: map[string]any{"on": true}},
	{Rule: "VariablesInAllowedPosition", Query: "query Q($ids: [Int]) { search(ids: $ids) { __typename } }", Vars: map[string]any{"ids": []any{1}}},
	{Rule: "MaxIntrospectionDepth", Query: "{ __schema { types { fields { type { fields { type { fields { name } } } } } } } }"},
	{Rule: "KnownRootType", Query: "mutation { name }", QOnly: true},
	{Rule: "KnownRootType", Query: "subscription { name }", QOnly: true},
}

// NearMiss: valid documents close to each rule.
var NearMiss = []RuleDoc{
	{Rule: "FieldsOnCorrectType", Query: "{ user { ... on User { name } } }"},
	{Rule: "FragmentsOnCompositeTypes", Query: "{ name ... on Query { user { id } } }"},
	{Rule: "FragmentsOnCompositeTypes", Query: "{ node { ... on Pet { nick } id } }"},
	{Rule: "KnownArgumentNames", Query: "{ search(text: \"a\", kind: A) { __typename } }"},
	{Rule: "KnownArgumentNames", Query: "{ name @onField(x: 1) }"},
	{Rule: "KnownDirectives", Query: "query Q @onQuery { name @onField }"},
	{Rule: "KnownDirectives", Query: "{ name @include(if: true) }"},
	{Rule: "KnownFragmentNames", Query: "{ name ...F } fragment F on Query { user { id } }"},
	{Rule: "KnownTypeNames", Query: "{ node { ... on User { name } } }"},
	{Rule: "LoneAnonymousOperation", Query: "query A { name } query B { user { id } }", OpName: "B"},
	{Rule: "NoFragmentCycles", Query: "{ user { ...A } } fragment A on User { id friend { ...B } } fragment B on User { name }"},
	{Rule: "NoUndefinedVariables", Query: "query Q($id: Int!) { find(id: $id) }", Vars: map[string]any{"id": 2}},
	{Rule: "NoUnusedFragments", Query: "{ ...F } fragment F on Query { ...G } fragment G on Query { name }"},
	{Rule: "NoUnusedVariables", Query: "query Q($x: Int) { name @onField(x: $x) }"},
	{Rule: "OverlappingFieldsCanBeMerged", Query: "{ x: name x: name find(id: 1) }"},
	{Rule: "OverlappingFieldsCanBeMerged", Query: "{ node { ... on User { n: id } ... on Pet { n: id } } }"},
	{Rule: "PossibleFragmentSpreads", Query: "{ node { ... on Pet { nick } ... on Node { id } } }"},
	{Rule: "ProvidedRequiredArguments", Query: "{ search(filter: {tag: \"t\"}) { __typename } ratio }"},
	{Rule: "ScalarLeafs", Query: "{ user { id } node { id } }"},
	{Rule: "SingleFieldSubscriptions", Query: "subscription { tock }"},
	{Rule: "UniqueArgumentNames", Query: "{ search(text: \"a\", ids: [1, 2]) { __typename } }"},
	{Rule: "UniqueDirectivesPerLocation", Query: "{ name @onField a: name @onField }"},
	{Rule: "UniqueFragmentNames", Query: "{ ...F ...G } fragment F on Query { name } fragment G on Query { name }"},
	{Rule: "UniqueInputFieldNames", Query: "{ search(filter: {tag: \"a\", min: 1}) { __typename } }"},
	{Rule: "UniqueOperationNames", Query: "query A { name } mutation B { setName(v: \"x\") }", OpName: "A"},
	{Rule: "UniqueVariableNames", Query: "query Q($x: Int!, $y: Int!) { find(id: $x) b: find(id: $y) }", Vars: map[string]any{"x": 1, "y": 2}},
	{Rule: "ValuesOfCorrectType", Query: "{ find(id: 7) flag(on: true) ratio(f: 1) search(kind: B, ids: []) { __typename } }"},
	{Rule: "VariablesAreInputTypes", Query: "query Q($f: Filter, $k: Kind) { search(filter: $f, kind: $k) { __typename } }", Vars: map[string]any{"f": map[string]any{"tag": "t"}, "k": "A"}},
	{Rule: "VariablesInAllowedPosition", Query: "query Q($id: Int!) { find(id: $id) }", Vars: map[string]any{"id": 3}},
	{Rule: "VariablesInAllowedPosition", Query: "query Q($id: Int = 4) { find(id: $id) }"},
	{Rule: "VariablesInAllowedPosition", Query: "query Q($ids: [Int!]!) { search(ids: $ids) { __typename } }", Vars: map[string]any{"ids": []any{1, 2}}},
	{Rule: "MaxIntrospectionDepth", Query: "{ __schema { types { fields { type { fields { name } } } } } }"},
	{Rule: "KnownRootType", Query: "query { name }", QOnly: true},
}

// Rules lists the rule names that have at least one invalid document.
func RuleNames() []string {
	seen := map[string]bool{}
	for _, d := range InvalidByRule {
		seen[d.Rule] = true
	}
	out := []string{}
	for r := range seen {
		out = append(out, r)
	}
	sort.Strings(out)
	return out
}

// CheckRuleDocs verifies the constants against gqlparser itself, with
// explicit rule lists (independent of the executor and of the global rule
// set): an Invalid document must parse, have an operation, fail the full rule
// set with errors of its rule ONLY, and pass the full set minus that rule; a
// NearMiss document must pass the full set. Returns the problems found.
func CheckRuleDocs(full, qonly *ast.Schema) []string {
	var bad []string
	pick := func(d RuleDoc) *ast.Schema {
		if d.QOnly {
			return qonly
		}
		return full
	}
	known := map[string]bool{}
	for _, r := range fullRules {
		known[r.Name] = true
	}
	for _, d := range InvalidByRule {
		if !known[d.Rule] {
			bad = append(bad, fmt.Sprintf("%s: not a default rule of this gqlparser", d.Rule))
			continue
		}
		doc, err := parser.ParseQuery(&ast.Source{Input: d.Query})
		if err != nil || len(doc.Operations) == 0 {
			bad = append(bad, fmt.Sprintf("%s: %q does not parse / has no operation: %v", d.Rule, d.Query, err))
			continue
		}
		errs := validator.Validate(pick(d), doc, fullRules...)
		if len(errs) == 0 {
			bad = append(bad, fmt.Sprintf("%s: %q is NOT rejected by gqlparser", d.Rule, d.Query))
			continue
		}
		hit := false
		for _, e := range errs {
			hit = hit || e.Rule == d.Rule
			also := false
			for _, a := range d.Also {
				also = also || a == e.Rule
			}
			if e.Rule != d.Rule && !also {
				bad = append(bad, fmt.Sprintf("%s: %q is also rejected by %s (%s)", d.Rule, d.Query, e.Rule, e.Message))
			}
		}
		if !hit {
			bad = append(bad, fmt.Sprintf("%s: %q is rejected, but not by this rule", d.Rule, d.Query))
		}
		if len(d.Also) > 0 {
			continue
		}
		doc2, _ := parser.ParseQuery(&ast.Source{Input: d.Query})
		if errs := validator.Validate(pick(d), doc2, rulesWithout(d.Rule)...); len(errs) != 0 {
			bad = append(bad, fmt.Sprintf("%s: %q still rejected without the rule: %s", d.Rule, d.Query, errs[0].Message))
		}
	}
	for _, d := range NearMiss {
		doc, err := parser.ParseQuery(&ast.Source{Input: d.Query})
		if err != nil {
			bad = append(bad, fmt.Sprintf("near-miss %s: %q does not parse: %v", d.Rule, d.Query, err))
			continue
		}
		if errs := validator.Validate(pick(d), doc, fullRules...); len(errs) != 0 {
			bad = append(bad, fmt.Sprintf("near-miss %s: %q is rejected: [%s] %s", d.Rule, d.Query, errs[0].Rule, errs[0].Message))
			continue
		}
		op := doc.Operations.ForName(d.OpName)
		if op == nil {
			bad = append(bad, fmt.Sprintf("near-miss %s: %q operation %q not found", d.Rule, d.Query, d.OpName))
			continue
		}
		if _, err := validator.VariableValues(pick(d), op, d.Vars); err != nil {
			bad = append(bad, fmt.Sprintf("near-miss %s: %q variables: %v", d.Rule, d.Query, err))
		}
	}
	return bad
}
