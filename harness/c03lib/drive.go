package c03lib

import (
	"context"
	"encoding/json"
	"fmt"
	"io"
	"log"
	"net/http"
	"net/http/httptest"
	"runtime/debug"
	"strconv"
	"sync"
	"time"

	"github.com/vektah/gqlparser/v2/ast"
	"github.com/vektah/gqlparser/v2/gqlerror"

	"github.com/99designs/gqlgen/graphql"
	"github.com/99designs/gqlgen/graphql/executor"
	"github.com/99designs/gqlgen/graphql/handler"
	"github.com/99designs/gqlgen/graphql/handler/lru"
	"github.com/99designs/gqlgen/graphql/handler/transport"
)

// Config is one server configuration.
type Config struct {
	ID     string    `json:"id"`
	Exts   []HookSet `json:"exts"`
	CK     string    `json:"ck"` // none | map | lru
	CN     int       `json:"cn"` // LRU capacity (0 otherwise)
	Sugg   bool      `json:"sugg"`
	Rules0 []string  `json:"rules0"`
	// Tr is how the requests arrive: "direct" (the driver calls the executor
	// like a transport does) or over a real connection to a real
	// handler.Server: post | get | form (multipart/form-data) | sse |
	// mixed (multipart/mixed) | ws (websocket; graphql-ws and
	// graphql-transport-ws alternate). "" means direct.
	Tr    string `json:"tr"`
	QOnly bool   `json:"qonly,omitempty"` // serve QueryOnlySDL instead of SchemaSDL
	// Impl, parallel to Exts: "" (instrumented extension), "complexity" or
	// "apq" (gqlgen's own gate extension, see NewGate); at most one "apq"
	Impl []string `json:"impl,omitempty"`
}

// Transports are the values of Config.Tr.
var Transports = []string{"direct", "post", "get", "form", "sse", "mixed", "ws"}

// Transport is Tr with the default filled in.
func (c Config) Transport() string {
	if c.Tr == "" {
		return "direct"
	}
	return c.Tr
}

func (c Config) impl(i int) string {
	if i < len(c.Impl) {
		return c.Impl[i]
	}
	return ""
}

// Remote says whether the requests go over a real connection.
func (c Config) Remote() bool { return c.Transport() != "direct" }

// Session is a configuration plus a history: steps run one after another,
// the requests of one step run concurrently.
type Session struct {
	Cfg   Config       `json:"cfg"`
	Steps [][]*Request `json:"steps"`
	// Sched, if non-nil, is the forced global order of the cache operations
	// (replay of a TLC-generated interleaving); all requests must then be in
	// one step.
	Sched []SchedOp `json:"sched,omitempty"`
	// WaitMs is how long a parked request waits for the operation scheduled
	// before it (default 5000; the retry of a timed-out schedule uses 10x).
	WaitMs int `json:"wait_ms,omitempty"`
	// results
	Lines   [][]byte `json:"-"`
	LinesS  []string `json:"lines,omitempty"` // Lines, for transport between processes
	NotRun  string   `json:"not_run,omitempty"`
	Diverge string   `json:"diverge,omitempty"`
	Panics  []string `json:"panics,omitempty"` // value + stack of every panic that left gqlgen (planned gate panics excluded)
	// ClientErrs: the harness's transport client could not complete a request
	// (connection error, unparsable framing, handler did not return)
	ClientErrs []string `json:"client_errs,omitempty"`
}

// SchedOp is one cache operation of a schedule.
type SchedOp struct {
	R  int    `json:"r"`
	Op string `json:"op"` // cget | cadd
	D  string `json:"d"`  // expected hit | miss | call
}

func (c Config) ScenarioLine() map[string]any {
	exts := c.Exts
	if exts == nil {
		exts = []HookSet{}
	}
	r0 := c.Rules0
	if r0 == nil {
		r0 = []string{}
	}
	return map[string]any{"e": "Scenario", "id": c.ID, "exts": exts, "ck": c.CK, "cn": c.CN, "sugg": c.Sugg, "rules0": r0, "tr": c.Transport()}
}

func newInnerCache(c Config) graphql.Cache[*ast.QueryDocument] {
	switch c.CK {
	case "map":
		return graphql.MapCache[*ast.QueryDocument]{}
	case "lru":
		return lru.New[*ast.QueryDocument](c.CN)
	}
	return graphql.NoCache[*ast.QueryDocument]{}
}

var (
	qoOnce sync.Once
	qoES   *ES
)

func queryOnlyES() *ES {
	qoOnce.Do(func() { qoES = NewQueryOnlyES() })
	return qoES
}

type server struct {
	cfg     Config
	ex      *executor.Executor
	ts      *httptest.Server // real transports
	client  *http.Client
	reg     sync.Map // request id -> *ReqInfo (real transports)
	onPanic func(string)
}

func newServer(es graphql.ExecutableSchema, c Config, cache *Cache) *server {
	s := &server{cfg: c}
	if c.Remote() {
		h := handler.New(es)
		h.AddTransport(transport.Websocket{})
		h.AddTransport(transport.SSE{})
		h.AddTransport(transport.MultipartMixed{})
		h.AddTransport(transport.GET{})
		h.AddTransport(transport.POST{})
		h.AddTransport(transport.MultipartForm{})
		for i, hs := range c.Exts {
			h.Use(NewGate(i+1, hs, c.impl(i)))
		}
		h.SetQueryCache(cache)
		h.SetDisableSuggestion(c.Sugg)
		h.SetParserTokenLimit(TokenLimit)
		// Server.ServeHTTP recovers a panic of the transport and presents it
		// through the recover function: user code, so the panic is observable.
		h.SetRecoverFunc(func(ctx context.Context, err any) error {
			ri := info(ctx)
			ri.T.Log(ri.ID, "recover", "call", 0, "")
			if s.onPanic != nil && !IsGatePanic(err) {
				s.onPanic(fmt.Sprintf("request %d: panic: %v\n%s", ri.ID, err, debug.Stack()))
			}
			return gqlerror.Errorf("internal system error")
		})
		s.ts = httptest.NewUnstartedServer(http.HandlerFunc(func(w http.ResponseWriter, r *http.Request) {
			id, _ := strconv.Atoi(r.Header.Get("X-C03-Req"))
			v, ok := s.reg.Load(id)
			if !ok {
				panic("c03lib: unknown request id")
			}
			e := v.(*regEntry)
			// the client waits for the handler to return: everything the server
			// does for this request is in the trace before the request counts as over
			defer close(e.served)
			h.ServeHTTP(w, r.WithContext(WithInfo(r.Context(), e.ri)))
		}))
		// net/http reports "superfluous WriteHeader" / "hijacked connection" when
		// ServeHTTP's recover answers on a flushed or hijacked connection
		s.ts.Config.ErrorLog = log.New(io.Discard, "", 0)
		s.ts.Start()
		s.client = &http.Client{Transport: &http.Transport{MaxIdleConnsPerHost: 8, DisableCompression: true}, Timeout: 30 * time.Second}
		return s
	}
	ex := executor.New(es)
	for i, hs := range c.Exts {
		ex.Use(NewGate(i+1, hs, c.impl(i)))
	}
	ex.SetQueryCache(cache)
	ex.SetDisableSuggestion(c.Sugg)
	ex.SetParserTokenLimit(TokenLimit)
	s.ex = ex
	return s
}

func (s *server) close() {
	if s.ts != nil {
		s.client.CloseIdleConnections()
		s.ts.Close()
	}
}

type regEntry struct {
	ri     *ReqInfo
	served chan struct{}
}

func respKind(resp *graphql.Response) string {
	if resp == nil {
		return "nil"
	}
	hasData := len(resp.Data) > 0 && string(resp.Data) != "null"
	switch {
	case len(resp.Errors) > 0 && !hasData:
		return "errors"
	case len(resp.Errors) > 0:
		return "mixed"
	case hasData:
		return "data"
	}
	return "empty"
}

// runDirect drives the executor exactly as the transports do
// (CreateOperationContext, then DispatchError or DispatchOperation and the
// response handler; a subscription is drained until nil).
func (s *server) runDirect(ri *ReqInfo, q *Request) {
	ctx := WithInfo(graphql.StartOperationTrace(context.Background()), ri)
	params := &graphql.RawParams{Query: q.Query, OperationName: q.OpName, Variables: q.Vars}
	params.Query, params.Extensions = ApqParams(q, s.cfg.Exts, s.cfg.Impl)
	rc, opErr := s.ex.CreateOperationContext(ctx, params)
	if opErr != nil {
		resp := s.ex.DispatchError(graphql.WithOperationContext(ctx, rc), opErr)
		k := respKind(resp)
		ri.T.Log(ri.ID, "resp", k, 0, "")
		q.Resps = append(q.Resps, k)
		return
	}
	responses, ctx := s.ex.DispatchOperation(ctx, rc)
	n := 1
	if rc.Operation != nil && rc.Operation.Operation == ast.Subscription {
		n = 1 << 20
	}
	for i := 0; i < n; i++ {
		resp := responses(ctx)
		k := respKind(resp)
		ri.T.Log(ri.ID, "resp", k, 0, "")
		q.Resps = append(q.Resps, k)
		if resp == nil {
			break
		}
	}
}

// Run executes the session against the real executor / handler and fills
// s.Lines with the ndjson trace (Scenario, Req and H lines, End).
func (s *Session) Run(es *ES) {
	if s.Cfg.QOnly {
		es = queryOnlyES()
	}
	t := &Tracer{}
	qids := map[string]string{}
	var qmu sync.Mutex
	qid := func(text string) string {
		qmu.Lock()
		defer qmu.Unlock()
		if id, ok := qids[text]; ok {
			return id
		}
		id := "Q" + strconv.Itoa(len(qids)+1)
		qids[text] = id
		return id
	}
	n := 0
	for _, st := range s.Steps {
		for _, q := range st {
			n++
			q.R = n
			q.Q = qid(q.Query)
			q.Describe(es.schema, s.Cfg.Transport())
			q.Resps, q.Status = nil, nil
		}
	}
	cache := NewCache(newInnerCache(s.Cfg))
	var sch *scheduler
	if s.Sched != nil {
		wait := 5 * time.Second
		if s.WaitMs > 0 {
			wait = time.Duration(s.WaitMs) * time.Millisecond
		}
		sch = &scheduler{ops: s.Sched, cond: sync.NewCond(&sync.Mutex{}), wait: wait}
		cache.Gate = sch.gate
	}
	srv := newServer(es, s.Cfg, cache)
	defer srv.close()
	s.Panics, s.ClientErrs = nil, nil
	srv.onPanic = func(text string) {
		qmu.Lock()
		s.Panics = append(s.Panics, text)
		qmu.Unlock()
		if sch != nil {
			sch.abort()
		}
	}
	t.Raw(s.Cfg.ScenarioLine())
	for _, st := range s.Steps {
		var wg sync.WaitGroup
		start := make(chan struct{})
		for _, q := range st {
			wg.Add(1)
			go func(q *Request) {
				defer wg.Done()
				ri := &ReqInfo{ID: q.R, Gates: q.Gates, T: t, QID: qid}
				defer func() {
					// the executor itself does not recover (the transports leave that
					// to Server.ServeHTTP): in direct mode the driver is the transport
					if p := recover(); p != nil {
						t.Log(q.R, "recover", "call", 0, "")
						t.Log(q.R, "resp", "panic", 0, "")
						q.Resps = append(q.Resps, "panic")
						if !IsGatePanic(p) || s.Cfg.Remote() {
							srv.onPanic(fmt.Sprintf("request %d: panic: %v\n%s", q.R, p, debug.Stack()))
						}
					}
				}()
				<-start
				t.Raw(q.ReqLine())
				if s.Cfg.Remote() {
					if err := srv.runRemote(ri, q, s.Cfg.Transport()); err != nil {
						qmu.Lock()
						s.ClientErrs = append(s.ClientErrs, fmt.Sprintf("request %d over %s: %v", q.R, s.Cfg.Transport(), err))
						qmu.Unlock()
					}
				} else {
					srv.runDirect(ri, q)
				}
				if sch != nil {
					sch.finished(q.R)
				}
			}(q)
		}
		close(start)
		wg.Wait()
	}
	if sch != nil {
		s.Diverge = sch.diverged()
	}
	t.Raw(map[string]any{"e": "End"})
	s.Lines = s.Lines[:0]
	for _, ev := range t.Events() {
		b, err := json.Marshal(ev)
		if err != nil {
			panic(err)
		}
		s.Lines = append(s.Lines, b)
	}
}

// scheduler forces the global order of cache operations given by a TLC
// behaviour. A request arriving at a cache operation parks until it is its
// turn; an operation the schedule does not expect next from that request, or
// an expected operation that never arrives, is a divergence (recorded, and
// everybody is released so the session ends).
type scheduler struct {
	ops  []SchedOp
	pos  int
	cond *sync.Cond
	div  string
	free bool
	done map[int]bool
	wait time.Duration
}

func (s *scheduler) nextFor(r int) (int, bool) {
	for i := s.pos; i < len(s.ops); i++ {
		if s.ops[i].R == r {
			return i, true
		}
	}
	return 0, false
}

// gate parks until it is the turn of (r, op); the returned function is called
// by the cache after the operation took effect and passes the turn on.
func (s *scheduler) gate(r int, op string) func() {
	s.cond.L.Lock()
	defer s.cond.L.Unlock()
	if s.gateLocked(r, op) {
		return func() {
			s.cond.L.Lock()
			s.pos++
			s.cond.Broadcast()
			s.cond.L.Unlock()
		}
	}
	return nil
}

func (s *scheduler) gateLocked(r int, op string) bool {
	if s.free {
		return false
	}
	i, ok := s.nextFor(r)
	if !ok || s.ops[i].Op != op {
		exp := "no further cache operation"
		if ok {
			exp = s.ops[i].Op
		}
		s.div = fmt.Sprintf("request %d performs %s where the model expects %s (schedule position %d)", r, op, exp, s.pos)
		s.free = true
		s.cond.Broadcast()
		return false
	}
	deadline := time.Now().Add(s.wait)
	for !s.free && !(s.pos < len(s.ops) && s.ops[s.pos].R == r) {
		if time.Now().After(deadline) {
			s.div = fmt.Sprintf("request %d parked at %s but the operation scheduled before it (position %d: request %d %s) never arrived", r, op, s.pos, s.ops[s.pos].R, s.ops[s.pos].Op)
			s.free = true
			s.cond.Broadcast()
			return false
		}
		// wake up periodically to check the deadline
		go func() { time.Sleep(50 * time.Millisecond); s.cond.Broadcast() }()
		s.cond.Wait()
	}
	return !s.free
}

func (s *scheduler) finished(r int) {
	s.cond.L.Lock()
	defer s.cond.L.Unlock()
	if _, ok := s.nextFor(r); ok && !s.free {
		s.div = fmt.Sprintf("request %d ended although the model expects a further cache operation from it", r)
		s.free = true
	}
	s.cond.Broadcast()
}

func (s *scheduler) abort() {
	s.cond.L.Lock()
	s.free = true
	s.cond.Broadcast()
	s.cond.L.Unlock()
}

func (s *scheduler) diverged() string {
	s.cond.L.Lock()
	defer s.cond.L.Unlock()
	if s.div == "" && s.pos != len(s.ops) {
		return fmt.Sprintf("schedule not completed: %d of %d cache operations happened", s.pos, len(s.ops))
	}
	return s.div
}
