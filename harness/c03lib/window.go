package c03lib

import (
	"context"
	"fmt"
	"runtime"
	"runtime/debug"
	"sync"
	"sync/atomic"
	"time"

	"github.com/vektah/gqlparser/v2/ast"

	"github.com/99designs/gqlgen/graphql"
	"github.com/99designs/gqlgen/graphql/executor"
)

// barrierCache is a cold query cache (every Get misses) whose Get is also a
// spin barrier: the K requests of a trial leave it together, a few
// nanoseconds apart, and so enter parse -> RemoveRule -> ReplaceRule ->
// Validate in lockstep. Get is the last user-code call before the rule swap.
type barrierCache struct {
	k       int32
	arrived atomic.Int32
	added   atomic.Int32
}

func (b *barrierCache) Get(ctx context.Context, key string) (*ast.QueryDocument, bool) {
	b.arrived.Add(1)
	for i := 0; b.arrived.Load() < b.k; i++ {
		if i > 1<<22 {
			runtime.Gosched()
		}
	}
	return nil, false
}

func (b *barrierCache) Add(ctx context.Context, key string, value *ast.QueryDocument) {
	b.added.Add(1)
}

// WindowStats is the outcome of the statistical reproduction of the rule-swap
// window (DESIGN section 7 #3).
type WindowStats struct {
	Trials      int      `json:"trials"`
	K           int      `json:"goroutines_per_trial"`
	Accepted    int      `json:"unknown_field_requests_accepted"`
	Executed    int      `json:"unknown_field_resolvers_run"`
	Cached      int      `json:"unknown_field_documents_cached"`
	Panics      int      `json:"panics"`
	Poisoned    int      `json:"trials_leaving_a_nil_rule_behind"`
	TrialsHit   int      `json:"trials_with_acceptance"`
	FirstHit    int      `json:"first_hit_trial"`
	PanicText   string   `json:"panic_text,omitempty"`
	Example     []string `json:"example_events,omitempty"`
	ExampleData string   `json:"example_response,omitempty"`
	Damaged     string   `json:"rule_slice_damaged_beyond_repair,omitempty"`
	WallS       float64  `json:"wall_s"`
}

// RunWindow issues, per trial, K concurrent requests with an unknown-field
// document against a fresh executor with SetDisableSuggestion(true), a cold
// cache and the global rule set reset to its fresh-process state. A request is
// "accepted" when CreateOperationContext returns no error, i.e. the document
// passed validation although it selects a field that does not exist.
func RunWindow(es *ES, k int, maxTrials int, budget time.Duration, stopAtHits int) *WindowStats {
	st := &WindowStats{K: k, FirstHit: -1}
	t0 := time.Now()
	queries := []string{"{ nosuch }", "{ name zzz }", "{ user { nosuch } }"}
	for trial := 0; trial < maxTrials && time.Since(t0) < budget; trial++ {
		if err := SafeReset(es.schema); err != nil {
			st.Damaged = fmt.Sprintf("after trial %d: %v", trial, err)
			break
		}
		ex := executor.New(es)
		ex.SetDisableSuggestion(true)
		bc := &barrierCache{k: int32(k)}
		ex.SetQueryCache(bc)
		tr := &Tracer{}
		var wg sync.WaitGroup
		var mu sync.Mutex
		hit := false
		for g := 0; g < k; g++ {
			wg.Add(1)
			go func(g int) {
				defer wg.Done()
				defer func() {
					if p := recover(); p != nil {
						mu.Lock()
						st.Panics++
						if st.PanicText == "" {
							st.PanicText = fmt.Sprint(p) + "\n" + string(debug.Stack())
						}
						mu.Unlock()
						// let the others pass the barrier
						bc.arrived.Add(int32(k))
					}
				}()
				ri := &ReqInfo{ID: g + 1, T: tr, QID: func(string) string { return "QU" }}
				ctx := WithInfo(graphql.StartOperationTrace(context.Background()), ri)
				q := queries[(trial+g)%len(queries)]
				rc, errs := ex.CreateOperationContext(ctx, &graphql.RawParams{Query: q})
				if errs != nil {
					return
				}
				rh, ctx2 := ex.DispatchOperation(ctx, rc)
				resp := rh(ctx2)
				mu.Lock()
				st.Accepted++
				hit = true
				if st.ExampleData == "" && resp != nil {
					st.ExampleData = q + " -> " + string(resp.Data)
				}
				mu.Unlock()
			}(g)
		}
		wg.Wait()
		st.Trials++
		st.Cached += int(bc.added.Load())
		// is the rule set left with a nil rule? a later, sequential, valid
		// request then panics too
		func() {
			defer func() {
				if p := recover(); p != nil {
					st.Poisoned++
				}
			}()
			ri := &ReqInfo{ID: k + 1, T: &Tracer{}, QID: func(string) string { return "QV" }}
			ctx := WithInfo(graphql.StartOperationTrace(context.Background()), ri)
			bc.arrived.Add(int32(k))
			_, _ = ex.CreateOperationContext(ctx, &graphql.RawParams{Query: "{ name }"})
		}()
		nres := 0
		for _, e := range tr.Events() {
			if ev, ok := e.(Ev); ok && ev.K == "res" {
				nres++
			}
		}
		st.Executed += nres
		if hit {
			st.TrialsHit++
			if st.FirstHit < 0 {
				st.FirstHit = trial
				for _, e := range tr.Events() {
					if ev, ok := e.(Ev); ok {
						st.Example = append(st.Example, fmt.Sprintf("r%d %s/%s %s", ev.R, ev.K, ev.D, ev.F))
					}
				}
			}
			if stopAtHits > 0 && st.TrialsHit >= stopAtHits {
				break
			}
		}
	}
	st.WallS = time.Since(t0).Seconds()
	return st
}
