package c03lib

import (
	"bufio"
	"bytes"
	"encoding/json"
	"fmt"
	"io"
	"mime"
	"mime/multipart"
	"net/http"
	"net/url"
	"strconv"
	"strings"
	"time"

	"github.com/gorilla/websocket"
)

// The client side of the real transports: the request of the alphabet is sent
// to the session's handler.Server (httptest server, real TCP connection) the
// way a client of that transport sends it, and every answer that arrives is
// noted as a "resp" event (d: data | errors | mixed | empty | nil = the
// transport's end-of-operation marker | closed = connection closed without an
// answer; f: status class of the HTTP answer).

func payloadKind(b []byte) string {
	var out struct {
		Data   json.RawMessage   `json:"data"`
		Errors []json.RawMessage `json:"errors"`
	}
	if err := json.Unmarshal(b, &out); err != nil {
		return "undecodable"
	}
	hasData := len(out.Data) > 0 && string(out.Data) != "null"
	switch {
	case len(out.Errors) > 0 && !hasData:
		return "errors"
	case len(out.Errors) > 0:
		return "mixed"
	case hasData:
		return "data"
	}
	return "empty"
}

func statusClass(code int) string {
	switch {
	case code >= 200 && code < 300:
		return "2xx"
	case code >= 400 && code < 500:
		return "4xx"
	case code >= 500:
		return "5xx"
	}
	return strconv.Itoa(code)
}

func (s *server) note(ri *ReqInfo, q *Request, kind, status string, code int) {
	ri.T.Log(ri.ID, "resp", kind, 0, status)
	q.Resps = append(q.Resps, kind)
	if code != 0 {
		q.Status = append(q.Status, strconv.Itoa(code))
	} else {
		q.Status = append(q.Status, status)
	}
}

// runRemote sends q over transport tr and notes the answers. It returns only
// when the server-side handler of the request has returned.
func (s *server) runRemote(ri *ReqInfo, q *Request, tr string) error {
	e := &regEntry{ri: ri, served: make(chan struct{})}
	s.reg.Store(ri.ID, e)
	defer s.reg.Delete(ri.ID)
	var err error
	if tr == "ws" {
		err = s.runWS(ri, q)
	} else {
		err = s.runHTTP(ri, q, tr)
	}
	select {
	case <-e.served:
	case <-time.After(20 * time.Second):
		if err == nil {
			err = fmt.Errorf("the server-side handler did not return within 20 s after the client was done")
		}
	}
	return err
}

func (s *server) runHTTP(ri *ReqInfo, q *Request, tr string) error {
	vars := q.Vars
	if vars == nil {
		vars = map[string]any{}
	}
	query, extensions := ApqParams(q, s.cfg.Exts, s.cfg.Impl)
	msg := map[string]any{"query": query, "operationName": q.OpName, "variables": vars}
	if extensions != nil {
		msg["extensions"] = extensions
	}
	body, _ := json.Marshal(msg)
	var req *http.Request
	switch tr {
	case "get":
		v := url.Values{}
		v.Set("query", query)
		if extensions != nil {
			eb, _ := json.Marshal(extensions)
			v.Set("extensions", string(eb))
		}
		if q.OpName != "" {
			v.Set("operationName", q.OpName)
		}
		if len(vars) > 0 {
			vb, _ := json.Marshal(vars)
			v.Set("variables", string(vb))
		}
		req, _ = http.NewRequest("GET", s.ts.URL+"/query?"+v.Encode(), nil)
	case "form":
		var buf bytes.Buffer
		mw := multipart.NewWriter(&buf)
		_ = mw.WriteField("operations", string(body))
		_ = mw.WriteField("map", "{}")
		_ = mw.Close()
		req, _ = http.NewRequest("POST", s.ts.URL+"/query", &buf)
		req.Header.Set("Content-Type", mw.FormDataContentType())
	default:
		req, _ = http.NewRequest("POST", s.ts.URL+"/query", bytes.NewReader(body))
		req.Header.Set("Content-Type", "application/json")
		switch tr {
		case "sse":
			req.Header.Set("Accept", "text/event-stream")
		case "mixed":
			req.Header.Set("Accept", "multipart/mixed")
		}
	}
	req.Header.Set("X-C03-Req", strconv.Itoa(ri.ID))
	resp, err := s.client.Do(req)
	if err != nil {
		return err
	}
	defer resp.Body.Close()
	st := statusClass(resp.StatusCode)
	mt, mp, _ := mime.ParseMediaType(resp.Header.Get("Content-Type"))
	switch mt {
	case "text/event-stream":
		return s.readSSE(ri, q, resp, st)
	case "multipart/mixed":
		return s.readMixed(ri, q, resp, st, mp["boundary"])
	}
	b, err := io.ReadAll(resp.Body)
	if err != nil {
		return err
	}
	s.note(ri, q, payloadKind(b), st, resp.StatusCode)
	return nil
}

// readSSE: "event: next" + "data: <json>" per response, "event: complete" at
// the end; lines starting with ':' are comments / keep-alives.
func (s *server) readSSE(ri *ReqInfo, q *Request, resp *http.Response, st string) error {
	rd := bufio.NewReader(resp.Body)
	event, data := "", ""
	done := false
	for {
		line, err := rd.ReadString('\n')
		line = strings.TrimRight(line, "\r\n")
		switch {
		case strings.HasPrefix(line, ":"):
		case strings.HasPrefix(line, "event:"):
			event = strings.TrimSpace(strings.TrimPrefix(line, "event:"))
		case strings.HasPrefix(line, "data:"):
			data += strings.TrimSpace(strings.TrimPrefix(line, "data:"))
		case line == "":
			switch event {
			case "next":
				s.note(ri, q, payloadKind([]byte(data)), st, resp.StatusCode)
			case "complete":
				s.note(ri, q, "nil", st, resp.StatusCode)
				done = true
			}
			event, data = "", ""
		}
		if err != nil {
			if err == io.EOF && done {
				return nil
			}
			if err == io.EOF {
				return fmt.Errorf("event stream ended without a complete event")
			}
			return err
		}
	}
}

// readMixed: one part per flush - the initial response as it is, later ones
// wrapped as {"incremental":[...]} - and the closing boundary at the end.
func (s *server) readMixed(ri *ReqInfo, q *Request, resp *http.Response, st, boundary string) error {
	mr := multipart.NewReader(resp.Body, boundary)
	for {
		part, err := mr.NextPart()
		if err == io.EOF {
			s.note(ri, q, "nil", st, resp.StatusCode)
			return nil
		}
		if err != nil {
			return fmt.Errorf("multipart/mixed framing: %w", err)
		}
		b, err := io.ReadAll(part)
		if err != nil {
			return fmt.Errorf("multipart/mixed part: %w", err)
		}
		var inc struct {
			Incremental []json.RawMessage `json:"incremental"`
		}
		if json.Unmarshal(b, &inc) == nil && inc.Incremental != nil {
			for _, x := range inc.Incremental {
				s.note(ri, q, payloadKind(x), st, resp.StatusCode)
			}
			continue
		}
		s.note(ri, q, payloadKind(b), st, resp.StatusCode)
	}
}

// runWS: one connection per request (the request identity travels in the
// handshake). init, ack, start/subscribe, then data/next frames, an error
// frame or none, complete. The two subprotocols alternate by request id.
func (s *server) runWS(ri *ReqInfo, q *Request) error {
	proto, start, next := "graphql-ws", "start", "data"
	if ri.ID%2 == 0 {
		proto, start, next = "graphql-transport-ws", "subscribe", "next"
	}
	d := websocket.Dialer{Subprotocols: []string{proto}, HandshakeTimeout: 20 * time.Second}
	hdr := http.Header{}
	hdr.Set("X-C03-Req", strconv.Itoa(ri.ID))
	c, _, err := d.Dial("ws"+strings.TrimPrefix(s.ts.URL, "http")+"/query", hdr)
	if err != nil {
		return err
	}
	defer c.Close()
	vars := q.Vars
	if vars == nil {
		vars = map[string]any{}
	}
	if err := c.WriteJSON(map[string]any{"type": "connection_init"}); err != nil {
		return err
	}
	query, extensions := ApqParams(q, s.cfg.Exts, s.cfg.Impl)
	payload := map[string]any{"query": query, "operationName": q.OpName, "variables": vars}
	if extensions != nil {
		payload["extensions"] = extensions
	}
	if err := c.WriteJSON(map[string]any{"type": start, "id": "1", "payload": payload}); err != nil {
		return err
	}
	_ = c.SetReadDeadline(time.Now().Add(20 * time.Second))
	answered := false
	for {
		var m struct {
			Type    string          `json:"type"`
			ID      string          `json:"id"`
			Payload json.RawMessage `json:"payload"`
		}
		_, b, err := c.ReadMessage()
		if err != nil {
			if _, ok := err.(*websocket.CloseError); ok || err == io.ErrUnexpectedEOF || strings.Contains(err.Error(), "closed") || strings.Contains(err.Error(), "reset") || err == io.EOF {
				// the server ended the connection before the operation was over
				s.note(ri, q, "closed", "none", 0)
				return nil
			}
			return fmt.Errorf("websocket read (answered=%v): %w", answered, err)
		}
		if err := json.Unmarshal(b, &m); err != nil {
			return fmt.Errorf("websocket frame %q: %w", b, err)
		}
		switch m.Type {
		case next:
			answered = true
			s.note(ri, q, payloadKind(m.Payload), "none", 0)
		case "error":
			answered = true
			s.note(ri, q, "errors", "none", 0)
		case "complete":
			s.note(ri, q, "nil", "none", 0)
			_ = c.WriteMessage(websocket.CloseMessage, websocket.FormatCloseMessage(websocket.CloseNormalClosure, ""))
			return nil
		case "connection_error":
			return fmt.Errorf("websocket connection_error: %s", m.Payload)
		}
	}
}
