package c03lib

import (
	"bufio"
	"bytes"
	"encoding/json"
	"fmt"
	"os"
	"time"
)

// Job is the work of one child process. The workloads that exercise the
// per-request rule swap concurrently run in child processes because the swap
// can damage gqlparser's process-global rule slice beyond repair; the child
// notices (SafeReset), says so and exits, and the parent continues with a
// fresh process.
type Job struct {
	Sessions []*Session `json:"sessions,omitempty"`
	Window   *WindowJob `json:"window,omitempty"`
}

type WindowJob struct {
	K        int `json:"k"`
	Trials   int `json:"trials"`
	BudgetMs int `json:"budget_ms"`
}

// ChildLine is one line of the child's result file.
type ChildLine struct {
	Session *Session     `json:"session,omitempty"`
	Window  *WindowStats `json:"window,omitempty"`
	Damaged string       `json:"damaged,omitempty"`
	Done    bool         `json:"done,omitempty"`
}

// ChildMain runs the job in C03_JOB and appends results to C03_RESULT, one
// line per finished session, so that the parent knows how far it got.
func ChildMain() {
	b, err := os.ReadFile(os.Getenv("C03_JOB"))
	if err != nil {
		fmt.Fprintln(os.Stderr, "child:", err)
		os.Exit(3)
	}
	var job Job
	dec := json.NewDecoder(bytes.NewReader(b))
	dec.UseNumber() // variables arrive as json.Number, as in gqlgen's own transports
	if err := dec.Decode(&job); err != nil {
		fmt.Fprintln(os.Stderr, "child:", err)
		os.Exit(3)
	}
	f, err := os.Create(os.Getenv("C03_RESULT"))
	if err != nil {
		fmt.Fprintln(os.Stderr, "child:", err)
		os.Exit(3)
	}
	w := bufio.NewWriter(f)
	emit := func(l ChildLine) {
		b, _ := json.Marshal(l)
		w.Write(b)
		w.WriteByte('\n')
		w.Flush()
	}
	es := NewES()
	if job.Window != nil {
		emit(ChildLine{Window: RunWindow(es, job.Window.K, job.Window.Trials, time.Duration(job.Window.BudgetMs)*time.Millisecond, 0)})
	}
	for _, s := range job.Sessions {
		if err := SafeReset(es.schema); err != nil {
			emit(ChildLine{Damaged: err.Error()})
			f.Close()
			os.Exit(0)
		}
		s.Run(es)
		s.LinesS = s.LinesS[:0]
		for _, ln := range s.Lines {
			s.LinesS = append(s.LinesS, string(ln))
		}
		emit(ChildLine{Session: s})
	}
	emit(ChildLine{Done: true})
	f.Close()
}
