package main

import (
	"encoding/json"
	"fmt"
	"os"
	"strconv"
	"time"

	"verifharness/c03lib"
)

func main() {
	k, _ := strconv.Atoi(os.Args[1])
	n, _ := strconv.Atoi(os.Args[2])
	st := c03lib.RunWindow(c03lib.NewES(), k, n, 60*time.Second, 0)
	b, _ := json.MarshalIndent(st, "", " ")
	fmt.Println(string(b))
}
