package c03lib

import (
	"fmt"
	"math/rand"
	"strings"

	"github.com/vektah/gqlparser/v2/ast"
	"github.com/vektah/gqlparser/v2/parser"
)

var kindWeights = []struct {
	k string
	w int
}{
	{"valid", 30}, {"multi-operation", 10}, {"operation-not-found", 9}, {"bad-variable", 9},
	{"parse-error", 8}, {"unknown-field", 14}, {"no-operation", 6}, {"invalid", 8}, {"rule-panic", 4}, {"over-token-limit", 5},
}

func pickKind(rng *rand.Rand) string {
	t := 0
	for _, kw := range kindWeights {
		t += kw.w
	}
	n := rng.Intn(t)
	for _, kw := range kindWeights {
		if n < kw.w {
			return kw.k
		}
		n -= kw.w
	}
	return "valid"
}

var typicalMasks = []int{63, 63, 0b111100, 0b000011, 0b100000, 0b001101, 0b010100, 0b001000, 0b000001, 0b000010}

// GenSession draws a random session: extension list of length 0-3 with
// arbitrary hook subsets, cache kind, suggestions on/off, direct driving or
// one of the real transports, 2-7 steps of 1-3 concurrent requests (at most maxReqs requests).
func GenSession(rng *rand.Rand, id string, maxReqs int) *Session {
	if rng.Intn(10) == 0 {
		return genCacheHistory(rng, id, maxReqs)
	}
	c := Config{ID: id, Rules0: []string{"FOCT"}, Exts: []HookSet{}}
	for i, n := 0, rng.Intn(4); i < n; i++ {
		m := 1 + rng.Intn(63)
		if rng.Intn(2) == 0 {
			m = pick(rng, typicalMasks)
		}
		c.Exts = append(c.Exts, HookSetOf(m))
	}
	switch rng.Intn(4) {
	case 0:
		c.CK = "none"
	case 1:
		c.CK = "map"
	default:
		c.CK, c.CN = "lru", 1+rng.Intn(3)
	}
	c.Sugg = rng.Intn(2) == 0
	c.Impl = GenImpl(rng, c.Exts)
	c.Tr = "direct"
	if rng.Intn(5) < 2 {
		c.Tr = pick(rng, Transports[1:])
	}
	// (a subscription over multipart/mixed is not a supported combination: the
	// closing boundary follows the first response; over GET it is refused)
	allowSub := c.Tr != "mixed"
	s := &Session{Cfg: c}
	total := 0
	// a session re-uses few query texts so that cache hits, re-adds and
	// evictions happen
	var pool []*Request
	for st, n := 0, 2+rng.Intn(6); st < n && total < maxReqs; st++ {
		g := 1
		if rng.Intn(5) < 2 {
			g = 2 + rng.Intn(2)
		}
		var step []*Request
		for j := 0; j < g && total < maxReqs; j++ {
			var q *Request
			if len(pool) > 0 && rng.Intn(5) < 2 {
				o := pick(rng, pool)
				cp := *o
				cp.Gates = GenGates(rng, c.Exts, 6)
				cp.Resps = nil
				q = &cp
				// the same text with another operation name / other variables
				if q.Kind == "multi-operation" && rng.Intn(3) == 0 {
					q.Kind, q.OpName = "operation-not-found", "Nope"
				}
			} else {
				q = GenRequest(rng, pickKind(rng), c.Exts, allowSub)
				pool = append(pool, q)
			}
			step = append(step, q)
			total++
		}
		s.Steps = append(s.Steps, step)
	}
	return s
}

// GenImpl chooses, for extensions that are a bare gate (only a parameter
// mutator / only a context mutator), whether gqlgen's own APQ / complexity-
// limit extension stands in that position (see NewGate).
func GenImpl(rng *rand.Rand, exts []HookSet) []string {
	impl := make([]string, len(exts))
	apq := false
	for i, e := range exts {
		switch {
		case e == HookSet{PM: true} && !apq && rng.Intn(2) == 0:
			impl[i], apq = "apq", true
		case e == HookSet{CM: true} && rng.Intn(2) == 0:
			impl[i] = "complexity"
		}
	}
	return impl
}

// Class is the evidence class of an executed request: kind, rejection,
// cache outcome, whether it ran concurrently, configuration shape.
func (s *Session) Classes() []string {
	out := []string{}
	for _, st := range s.Steps {
		for _, q := range st {
			conc := "seq"
			if len(st) > 1 {
				conc = "conc"
			}
			ck := s.Cfg.CK
			mode := s.Cfg.Transport()
			out = append(out, fmt.Sprintf("%s/gates=%s/%s/%s/sugg=%v/exts=%d/%s", q.Kind, q.GatePlan(), ck, conc, s.Cfg.Sugg, len(s.Cfg.Exts), mode))
			if f := q.Fate(s.Cfg.Exts, mode); f == "panicked" {
				out = append(out, fmt.Sprintf("gate-panic/%s/%s/%s/%s", q.Kind, q.GatePlan(), mode, conc))
			}
			for _, g := range q.Gates {
				if g.I >= 1 && g.I <= len(s.Cfg.Impl) && s.Cfg.Impl[g.I-1] != "" {
					out = append(out, fmt.Sprintf("real-gate/%s/%s/%s", s.Cfg.Impl[g.I-1], g.O, mode))
				}
			}
			if q.Rule != "" {
				out = append(out, fmt.Sprintf("rule=%s/%s/%s/%s/sugg=%v", q.Rule, q.Kind, ck, conc, s.Cfg.Sugg))
			}
		}
	}
	return out
}

// genCacheHistory is a sequential session that exercises the cache as a
// history: an LRU of size 1-3 (or a map), few distinct query texts asked over
// and over, so that hits, recency refreshes and evictions decide later
// hit/miss outcomes.
func genCacheHistory(rng *rand.Rand, id string, maxReqs int) *Session {
	c := Config{ID: id, Rules0: []string{"FOCT"}, Exts: []HookSet{}, CK: "lru", CN: 1 + rng.Intn(3), Sugg: rng.Intn(2) == 0}
	if rng.Intn(6) == 0 {
		c.CK, c.CN = "map", 0
	}
	if rng.Intn(2) == 0 {
		c.Exts = append(c.Exts, HookSetOf(pick(rng, typicalMasks)))
	}
	var texts []*Request
	for i, n := 0, c.CN+1+rng.Intn(2); i < n; i++ {
		k := "valid"
		if rng.Intn(4) == 0 {
			k = pick(rng, []string{"multi-operation", "unknown-field", "bad-variable", "operation-not-found"})
		}
		q := GenRequest(rng, k, nil, false)
		q.Query += strings.Repeat(" ", i) // distinct cache keys
		texts = append(texts, q)
	}
	s := &Session{Cfg: c}
	for i := 0; i < maxReqs; i++ {
		cp := *pick(rng, texts)
		s.Steps = append(s.Steps, []*Request{&cp})
	}
	return s
}

// GenKeySweep: the query cache is keyed by the exact query text. Documents
// that differ only in layout - or that LOOK alike once layout is folded: white
// space inside a string literal, a line break that ends a comment - are
// different texts: each is a miss the first time (and parsed and validated on
// its own) and a hit the second time. One sequential session per cache kind;
// the LRU is large enough to hold every text.
func GenKeySweep() []*Session {
	texts := []struct{ q, kind string }{
		{"{ name }", "valid"},
		{"{ name } ", "valid"},
		{" { name }", "valid"},
		{"{\n  name\n}", "valid"},
		{"{\tname }", "valid"},
		{"{ name, }", "valid"},
		{"query Q {\n  name # the display name\n}", "valid"},
		{"query Q { name # the display name }", "parse-error"}, // the comment swallows the brace
		{"mutation { setName(v: \"a b\") }", "valid"},
		{"mutation { setName(v: \"a  b\") }", "valid"},
		{"{ user { id } nosuch }", "unknown-field"},
		{"{ user { id }\n# nosuch }\n}", "valid"},
	}
	var out []*Session
	for ci, cc := range []Config{{CK: "map"}, {CK: "lru", CN: 16}, {CK: "lru", CN: 16, Tr: "post"}} {
		for half := 0; half < 2; half++ {
			c := Config{ID: fmt.Sprintf("keys%d-%d", ci, half), Rules0: []string{"FOCT"}, CK: cc.CK, CN: cc.CN, Tr: cc.Tr, Exts: []HookSet{HookSetOf(0b100100)}}
			if c.Tr == "" {
				c.Tr = "direct"
			}
			s := &Session{Cfg: c}
			part := texts[half*6 : half*6+6]
			for round := 0; round < 2; round++ {
				for _, t := range part {
					s.Steps = append(s.Steps, []*Request{{Kind: t.kind, Query: t.q, Gates: []Gate{}, Vars: map[string]any{}}})
				}
			}
			out = append(out, s)
		}
	}
	return out
}

// otherOpName is an operation name different from the one the document was
// first sent with: the name of its first named operation if there is one
// (then the operation is found), else a name that does not exist.
func otherOpName(query, first string) string {
	doc, err := parser.ParseQuery(&ast.Source{Input: query})
	if err == nil {
		for _, op := range doc.Operations {
			if op.Name != "" && op.Name != first {
				return op.Name
			}
		}
	}
	if first == "" {
		return "X"
	}
	return ""
}

// GenRuleSweep builds the systematic part of the request space: EVERY
// per-rule invalid document (rules.go) is sent under suggestions enabled and
// disabled, with every cache kind, as a first request, as a repeated request
// of the same text (a second time under another operation name) and
// concurrently with others; the valid near-misses of the same rules are sent
// first and repeated (cache hit) too. variant varies extension lists and the
// driving mode (direct / a real transport).
func GenRuleSweep(rng *rand.Rand, variant int) []*Session {
	var out []*Session
	caches := []Config{{CK: "none"}, {CK: "map"}, {CK: "lru", CN: 1}, {CK: "lru", CN: 2}}
	near := map[string][]RuleDoc{}
	for _, d := range NearMiss {
		near[fmt.Sprint(d.QOnly)+d.Rule] = append(near[fmt.Sprint(d.QOnly)+d.Rule], d)
	}
	mk := func(d RuleDoc, kind string) *Request {
		q := &Request{Kind: kind, Gates: []Gate{}}
		q.FromRuleDoc(d)
		return q
	}
	for _, qonly := range []bool{false, true} {
		var docs []RuleDoc
		for _, d := range InvalidByRule {
			if d.QOnly == qonly {
				docs = append(docs, d)
			}
		}
		for _, sugg := range []bool{true, false} {
			for ci, cc := range caches {
				perm := rng.Perm(len(docs))
				for i := 0; i < len(perm); i += 3 {
					var chunk []RuleDoc
					for _, j := range perm[i:min(len(perm), i+3)] {
						chunk = append(chunk, docs[j])
					}
					c := Config{ID: fmt.Sprintf("rules%d-%v-%v-%d-%d", variant, qonly, sugg, ci, i/3), Rules0: []string{"FOCT"},
						CK: cc.CK, CN: cc.CN, Sugg: sugg, QOnly: qonly, Exts: []HookSet{}}
					c.Tr = "direct"
					if (variant+ci+i/3)%4 == 3 {
						c.Tr = []string{"post", "get", "sse", "ws", "form", "post"}[(variant+ci+i/3)/4%6]
					}
					for k, n := 0, 1+rng.Intn(2); k < n; k++ {
						c.Exts = append(c.Exts, HookSetOf(pick(rng, typicalMasks)))
					}
					s := &Session{Cfg: c}
					for _, d := range chunk { // first
						s.Steps = append(s.Steps, []*Request{mk(d, "invalid")})
					}
					for _, d := range chunk { // repeated, under another operation name
						q := mk(d, "invalid")
						q.OpName = otherOpName(d.Query, d.OpName)
						s.Steps = append(s.Steps, []*Request{q})
					}
					var conc []*Request // concurrent
					for _, d := range chunk {
						conc = append(conc, mk(d, "invalid"))
					}
					s.Steps = append(s.Steps, conc)
					// valid near-misses of the same rules: first, repeated (hit), concurrent
					var nm []RuleDoc
					for _, d := range chunk {
						nm = append(nm, near[fmt.Sprint(d.QOnly)+d.Rule]...)
					}
					if len(nm) > 0 {
						a := pick(rng, nm)
						b := pick(rng, nm)
						s.Steps = append(s.Steps, []*Request{mk(a, "valid")}, []*Request{mk(a, "valid"), mk(b, "valid")})
					}
					out = append(out, s)
				}
			}
		}
	}
	return out
}
