package c03lib

import (
	"context"
	"sync"

	"github.com/vektah/gqlparser/v2/ast"

	"github.com/99designs/gqlgen/graphql"
)

// Cache wraps a real query cache (graphql.NoCache, graphql.MapCache, lru.LRU).
// The inner operation and its log entry happen under one mutex, so the logged
// order of cache events is the order in which the operations took effect
// (MapCache itself is not safe for concurrent use; the mutex also makes it so).
// Gate, if set, is called before the operation and may block, and the function
// it returns is called after the operation: it is the scheduler of the
// replayed interleavings.
type Cache struct {
	mu    sync.Mutex
	inner graphql.Cache[*ast.QueryDocument]
	Gate  func(r int, op string) func()
}

func NewCache(inner graphql.Cache[*ast.QueryDocument]) *Cache { return &Cache{inner: inner} }

func (c *Cache) Get(ctx context.Context, key string) (*ast.QueryDocument, bool) {
	ri := info(ctx)
	if c.Gate != nil {
		if after := c.Gate(ri.ID, "cget"); after != nil {
			defer after()
		}
	}
	c.mu.Lock()
	defer c.mu.Unlock()
	v, ok := c.inner.Get(ctx, key)
	d := "miss"
	if ok {
		d = "hit"
	}
	ri.T.Log(ri.ID, "cget", d, 0, ri.QID(key))
	return v, ok
}

func (c *Cache) Add(ctx context.Context, key string, value *ast.QueryDocument) {
	ri := info(ctx)
	if c.Gate != nil {
		if after := c.Gate(ri.ID, "cadd"); after != nil {
			defer after()
		}
	}
	c.mu.Lock()
	defer c.mu.Unlock()
	c.inner.Add(ctx, key, value)
	ri.T.Log(ri.ID, "cadd", "call", 0, ri.QID(key))
}
