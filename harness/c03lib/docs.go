package c03lib

import (
	"fmt"
	"math/rand"
	"strings"

	"github.com/vektah/gqlparser/v2/ast"
	"github.com/vektah/gqlparser/v2/gqlerror"
	"github.com/vektah/gqlparser/v2/parser"
	"github.com/vektah/gqlparser/v2/validator"
	"github.com/vektah/gqlparser/v2/validator/rules"
)

const (
	RuleFOCT = "FieldsOnCorrectType"
	RuleNS   = "FieldsOnCorrectTypeWithoutSuggestions"
	// RulePanics is a user-registered validation rule (validator.AddRule, the
	// way depth limits and the like are added) with a latent bug: it panics on
	// an operation named PanicOpName. Validation is a gate; a rule that panics
	// has not let the document pass.
	RulePanics  = "C03RuleThatPanics"
	PanicOpName = "C03RulePanics"
	// TokenLimit is the parser token limit every server of the check is
	// configured with (SetParserTokenLimit). Parsing is a gate: a document with
	// more tokens - however valid otherwise - has not passed it (class tlim).
	// Every other document of the alphabet stays far below it.
	TokenLimit = 400
)

func init() {
	validator.AddRule(RulePanics, func(observers *validator.Events, addError validator.AddErrFunc) {
		observers.OnOperation(func(walker *validator.Walker, op *ast.OperationDefinition) {
			if op.Name == PanicOpName {
				panic(GatePanic{"validation rule " + RulePanics})
			}
		})
	})
}

// fullRules is the rule set gqlparser registers by default (one AddRule per
// file of validator/rules). Passing rules explicitly makes Validate
// independent of the process-global set, so documents can be classified
// without touching (or trusting) the state under test.
var fullRules = []validator.Rule{
	rules.FieldsOnCorrectTypeRule, rules.FragmentsOnCompositeTypesRule, rules.KnownArgumentNamesRule,
	rules.KnownDirectivesRule, rules.KnownFragmentNamesRule, rules.KnownRootTypeRule, rules.KnownTypeNamesRule,
	rules.LoneAnonymousOperationRule, rules.MaxIntrospectionDepth, rules.NoFragmentCyclesRule,
	rules.NoUndefinedVariablesRule, rules.NoUnusedFragmentsRule, rules.NoUnusedVariablesRule,
	rules.OverlappingFieldsCanBeMergedRule, rules.PossibleFragmentSpreadsRule, rules.ProvidedRequiredArgumentsRule,
	rules.ScalarLeafsRule, rules.SingleFieldSubscriptionsRule, rules.UniqueArgumentNamesRule,
	rules.UniqueDirectivesPerLocationRule, rules.UniqueFragmentNamesRule, rules.UniqueInputFieldNamesRule,
	rules.UniqueOperationNamesRule, rules.UniqueVariableNamesRule, rules.ValuesOfCorrectTypeRule,
	rules.VariablesAreInputTypesRule, rules.VariablesInAllowedPositionRule,
}

func rulesWithout(name string) []validator.Rule {
	out := []validator.Rule{}
	for _, r := range fullRules {
		if r.Name != name {
			out = append(out, r)
		}
	}
	return out
}

// Classify decides the document class of a query text independently of the
// executor: perr (does not parse), tlim (parses, but has more than TokenLimit
// tokens: rejected by the parser of a server configured with that limit), noop (parses, no operation), vpan (the
// registered rule RulePanics panics on it), ok (passes the full rule set), unk
// (fails ONLY the field-existence rule), inv (fails some other rule).
func Classify(schema *ast.Schema, query string) string {
	doc, err := parser.ParseQuery(&ast.Source{Input: query})
	if err != nil {
		return "perr"
	}
	if _, err := parser.ParseQueryWithTokenLimit(&ast.Source{Input: query}, TokenLimit); err != nil {
		return "tlim"
	}
	if len(doc.Operations) == 0 {
		return "noop"
	}
	for _, op := range doc.Operations {
		if op.Name == PanicOpName {
			return "vpan"
		}
	}
	if len(validator.Validate(schema, doc, fullRules...)) == 0 {
		return "ok"
	}
	doc2, _ := parser.ParseQuery(&ast.Source{Input: query})
	if len(validator.Validate(schema, doc2, rulesWithout(RuleFOCT)...)) == 0 {
		return "unk"
	}
	return "inv"
}

// ResetRules puts the process-global rule set of gqlparser into the state of
// a fresh process as far as the field-existence rule is concerned: the
// suggesting flavour present, the non-suggesting one absent. Only the public
// API is used; must not run concurrently with requests.
func ResetRules() {
	validator.RemoveRule(RuleNS)
	// a racing swap can leave zero-valued entries (empty name, nil RuleFunc)
	// behind; they are removed too, otherwise they would persist forever
	validator.RemoveRule("")
	validator.ReplaceRule(RuleFOCT, rules.FieldsOnCorrectTypeRule.RuleFunc)
}

// SafeReset is ResetRules guarded against a rule slice that a racing swap has
// damaged beyond what the public API can repair (a half-written entry makes
// RemoveRule / ReplaceRule / Validate themselves panic): it reports that
// instead of crashing. The caller must then abandon the process.
func SafeReset(schema *ast.Schema) (err error) {
	defer func() {
		if p := recover(); p != nil {
			err = fmt.Errorf("the global rule slice is damaged: resetting it through validator.RemoveRule/ReplaceRule panics: %v", p)
		}
	}()
	ResetRules()
	if got := fmt.Sprint(ProbeRules(schema)); got != "[FOCT]" {
		return fmt.Errorf("the global rule slice cannot be reset: probe says %s", got)
	}
	return nil
}

// ProbeRules reports which flavours of the field-existence rule the global
// rule set currently applies, by validating an unknown-field document with
// the default (global) rules.
func ProbeRules(schema *ast.Schema) []string {
	doc, _ := parser.ParseQuery(&ast.Source{Input: "{ c03NoSuchField }"})
	out := []string{}
	seen := map[string]bool{}
	for _, e := range validator.Validate(schema, doc) {
		n := ""
		switch e.Rule {
		case RuleFOCT:
			n = "FOCT"
		case RuleNS:
			n = "NS"
		}
		if n != "" && !seen[n] {
			seen[n] = true
			out = append(out, n)
		}
	}
	return out
}

// Request is one element of the request alphabet, concretised.
type Request struct {
	R      int            `json:"r"`
	Kind   string         `json:"kind"`
	Rule   string         `json:"rule,omitempty"` // for per-rule documents (rules.go)
	Query  string         `json:"query"`
	OpName string         `json:"opname"`
	Vars   map[string]any `json:"vars"`
	Gates  []Gate         `json:"gates"` // gate plan: which mutator gates reject / panic
	// derived description (what the model is told)
	Q      string   `json:"q"`
	Cls    string   `json:"cls"`
	OpSel  string   `json:"opsel"`
	VarCls string   `json:"vars_cls"`
	Opt    string   `json:"opt"` // operation type of the selected operation
	Rounds []string `json:"rounds"`
	Roots  []Root   `json:"roots"`
	// observed
	Resps  []string `json:"resps,omitempty"`
	Status []string `json:"status,omitempty"` // HTTP status of each answer (real transports)
}

// GatePlan is the gate plan as a class label: kinds and outcomes, no indices.
func (q *Request) GatePlan() string {
	if len(q.Gates) == 0 {
		return "none"
	}
	parts := []string{}
	for _, g := range q.Gates {
		parts = append(parts, g.K+":"+g.O)
	}
	return strings.Join(parts, "+")
}

// ReqLine is the "Req" trace line.
func (q *Request) ReqLine() map[string]any {
	gates := q.Gates
	if gates == nil {
		gates = []Gate{}
	}
	return map[string]any{"e": "Req", "r": q.R, "kind": q.Kind, "q": q.Q, "cls": q.Cls, "opsel": q.OpSel,
		"vars": q.VarCls, "opt": q.Opt, "gates": gates, "rounds": q.Rounds, "roots": q.Roots}
}

type docT struct {
	query  string
	opname string
	vars   map[string]any
	varBad bool
}

var okDocs = []docT{
	{query: "{ name }"},
	{query: "{ a: name }"},
	{query: "{ name user { id } }"},
	{query: "{ user { id name friend { id } } name }"},
	{query: "query Q { find(id: 3) }"},
	{query: "query Q { find(id: 3) }", opname: "Q"},
	{query: "mutation { setName(v: \"x\") }"},
	{query: "mutation M { a: setName(v: \"x\") b: setName(v: \"y\") }"},
	{query: "subscription { tick }"},
	{query: "{ user { friend { friend { name } } } }"},
	{query: "query F($id: Int!) { find(id: $id) }", vars: map[string]any{"id": 7}},
	{query: "query F($id: Int!) { find(id: $id) name }", vars: map[string]any{"id": 1}},
	{query: func() string { u, _ := TokenBorder(); return u }()}, // the longest document of its shape under the token limit
}

var multiDocs = []docT{
	{query: "query A { name } query B { user { id } }"},
	{query: "query A { name } mutation B { setName(v: \"z\") }"},
	{query: "query B { user { name } } query A { find(id: 1) }"},
}

var badVarDocs = []docT{
	{query: "query F($id: Int!) { find(id: $id) }", vars: map[string]any{"id": "seven"}},
	{query: "query F($id: Int!) { find(id: $id) }", vars: map[string]any{}},
	{query: "query F($id: Int!) { find(id: $id) name }", vars: map[string]any{"id": nil}},
}

var perrDocs = []string{"{ name", "query {", "{ name }}", "{ user { id }", "query Q( { name }", "{ find(id: ) }"}
var unkDocs = []string{"{ nosuch }", "{ name zzz }", "{ user { nosuch } }", "{ user { id } bogus }", "mutation { nosuch }",
	"{ user { friend { nope } } }", "query U { nosuch2 name }"}
// TlimDocs are documents that are valid in every respect (they would execute
// on a server without a limit) but have more than TokenLimit tokens: repeated
// selections that merge, a long argument list value, many small operations of
// which one is selected, comments (gqlparser counts a comment as a token), and
// one that crosses the limit only in its last tokens.
var TlimDocs = func() []string {
	rep := func(s string, n int) string { return strings.Repeat(s, n) }
	var many strings.Builder
	many.WriteString("query A { name }")
	for i := 0; i < 90; i++ {
		fmt.Fprintf(&many, " query Z%d { x: name }", i)
	}
	_, over := TokenBorder()
	return []string{
		"{ c: name" + rep(" c: name", 220) + " }",
		"{ user { id" + rep(" id", 450) + " } }",
		"query Q { name" + rep("\n# filler", 420) + "\n}",
		many.String(),
		over,
	}
}()

// TokenBorder returns two valid documents that differ in one repeated
// selection: the first is the longest of its shape the limit admits, the
// second the shortest it refuses (found with the parser, not by counting).
func TokenBorder() (under, over string) {
	mk := func(n int) string { return "{ a: name" + strings.Repeat(" a: name", n) + " }" }
	for n := 1; n < TokenLimit; n++ {
		if _, err := parser.ParseQueryWithTokenLimit(&ast.Source{Input: mk(n)}, TokenLimit); err != nil {
			return mk(n - 1), mk(n)
		}
	}
	panic("c03lib: no document of the border shape exceeds the token limit")
}

var noopDocs = []string{"fragment F on Query { name }", "fragment G on User { id }"}
var vpanDocs = []string{"query " + PanicOpName + " { name }", "query " + PanicOpName + " { user { id } name }",
	"mutation " + PanicOpName + " { setName(v: \"x\") }", "query A { name } query " + PanicOpName + " { a: name }"}

// Kinds is the request alphabet of the property statement (plus "invalid":
// a document failing another validation rule than field existence).
var Kinds = []string{"valid", "parse-error", "unknown-field", "no-operation", "operation-not-found", "bad-variable", "multi-operation", "invalid", "rule-panic", "over-token-limit"}

func pick[T any](rng *rand.Rand, xs []T) T { return xs[rng.Intn(len(xs))] }

// pad varies the query text (and so the cache key) without changing its class.
func pad(rng *rand.Rand, q string) string {
	switch rng.Intn(4) {
	case 0:
		return q + " "
	case 1:
		return " " + q
	case 2:
		return q + "\n# c" + fmt.Sprint(rng.Intn(3))
	}
	return q
}

// GenRequest draws a request of the given kind. exts is the registered
// extension list (for choosing a rejecting mutator).
func GenRequest(rng *rand.Rand, kind string, exts []HookSet, allowSub bool) *Request {
	q := &Request{Kind: kind, Gates: []Gate{}, Vars: map[string]any{}}
	switch kind {
	case "valid":
		if rng.Intn(3) == 0 {
			for {
				d := pick(rng, NearMiss)
				if !d.QOnly && (allowSub || !strings.HasPrefix(d.Query, "subscription")) {
					q.FromRuleDoc(d)
					break
				}
			}
			q.Gates = GenGates(rng, exts, 5)
			return q
		}
		for {
			d := pick(rng, okDocs)
			if !allowSub && len(d.query) > 12 && d.query[:12] == "subscription" {
				continue
			}
			q.Query, q.OpName = d.query, d.opname
			if d.vars != nil {
				q.Vars = d.vars
			}
			break
		}
	case "multi-operation":
		d := pick(rng, multiDocs)
		q.Query = d.query
		q.OpName = pick(rng, []string{"A", "B"})
	case "operation-not-found":
		switch rng.Intn(3) {
		case 0:
			q.Query, q.OpName = pick(rng, multiDocs).query, pick(rng, []string{"", "C", "a"})
		case 1:
			q.Query, q.OpName = "{ name }", "X"
		default:
			q.Query, q.OpName = "query Q { find(id: 3) }", pick(rng, []string{"q", "R"})
		}
	case "bad-variable":
		d := pick(rng, badVarDocs)
		q.Query, q.Vars = d.query, d.vars
	case "parse-error":
		q.Query = pick(rng, perrDocs)
	case "unknown-field":
		q.Query = pick(rng, unkDocs)
	case "no-operation":
		q.Query = pick(rng, noopDocs)
	case "over-token-limit":
		q.Query = pick(rng, TlimDocs)
		if strings.HasPrefix(q.Query, "query A") {
			q.OpName = "A"
		}
	case "rule-panic":
		q.Query = pick(rng, vpanDocs)
		if strings.HasPrefix(q.Query, "query A") {
			q.OpName = "A" // the rule panics although another operation is selected
		}
	case "invalid":
		// one document class per default validation rule (rules.go)
		for {
			d := pick(rng, InvalidByRule)
			if !d.QOnly {
				q.FromRuleDoc(d)
				break
			}
		}
		return q
	default:
		panic("unknown kind " + kind)
	}
	if rng.Intn(3) == 0 {
		q.Query = pad(rng, q.Query)
	}
	q.Gates = GenGates(rng, exts, 5)
	return q
}

// GenGates draws a gate plan: with probability 1/oneIn one or two mutator
// gates that do not pass - each returns an error or panics - mostly at
// positions where such a gate is registered (a command naming a position
// without that gate must change nothing).
func GenGates(rng *rand.Rand, exts []HookSet, oneIn int) []Gate {
	out := []Gate{}
	if len(exts) == 0 || rng.Intn(oneIn) != 0 {
		return out
	}
	var pos []Gate
	for i, e := range exts {
		if e.PM {
			pos = append(pos, Gate{K: "pm", I: i + 1})
		}
		if e.CM {
			pos = append(pos, Gate{K: "cm", I: i + 1})
		}
	}
	n := 1
	if rng.Intn(3) == 0 {
		n = 2
	}
	for j := 0; j < n; j++ {
		g := Gate{K: pick(rng, []string{"pm", "cm"}), I: 1 + rng.Intn(len(exts))}
		if len(pos) > 0 && rng.Intn(5) != 0 {
			g = pick(rng, pos)
		}
		dup := false
		for _, o := range out {
			dup = dup || (o.K == g.K && o.I == g.I)
		}
		if dup {
			continue
		}
		g.O = pick(rng, []string{"rej", "pan", "pan"})
		out = append(out, g)
	}
	return out
}

// Describe fills the derived description of a request (what the model is
// told about it) from the query text alone, using the parser and the
// explicit-rule validator - never the executor under test.
func (q *Request) Describe(schema *ast.Schema, tr string) {
	q.Cls = Classify(schema, q.Query)
	q.OpSel, q.VarCls, q.Opt = "found", "good", "query"
	// the request/response transports call the response handler once, the
	// streaming ones (and the direct driver for subscriptions) until it
	// returns nil
	streaming := tr == "sse" || tr == "mixed" || tr == "ws"
	q.Rounds = []string{"data"}
	if streaming {
		q.Rounds = []string{"data", "nil"}
	}
	q.Roots = []Root{}
	if q.Gates == nil {
		q.Gates = []Gate{}
	}
	if q.Cls == "perr" || q.Cls == "noop" || q.Cls == "tlim" {
		return
	}
	doc, _ := parser.ParseQuery(&ast.Source{Input: q.Query})
	op := doc.Operations.ForName(q.OpName)
	if op == nil {
		q.OpSel = "notfound"
		return
	}
	q.Roots = RootsOf(op)
	q.Opt = string(op.Operation)
	if op.Operation == ast.Subscription && (streaming || tr == "direct" || tr == "") {
		q.Rounds = []string{}
		for i := 0; i < SubscriptionResponses; i++ {
			q.Rounds = append(q.Rounds, "data")
		}
		q.Rounds = append(q.Rounds, "nil")
	}
	if q.Cls == "ok" {
		// variable coercion is judged on a validated copy of the document
		validator.Validate(schema, doc, fullRules...)
		if _, err := validator.VariableValues(schema, op, q.Vars); err != nil {
			if _, ok := err.(*gqlerror.Error); ok {
				q.VarCls = "bad"
			}
		}
	}
}

// kindClass is what each kind of the alphabet must be classified as.
var kindClass = map[string][3]string{
	"valid": {"ok", "found", "good"}, "multi-operation": {"ok", "found", "good"},
	"operation-not-found": {"ok", "notfound", "good"}, "bad-variable": {"ok", "found", "bad"},
	"parse-error": {"perr", "found", "good"}, "unknown-field": {"unk", "found", "good"},
	"no-operation": {"noop", "found", "good"}, "invalid": {"inv", "found", "good"},
	"rule-panic": {"vpan", "found", "good"}, "over-token-limit": {"tlim", "found", "good"},
}

// Consistent reports whether the independent classification agrees with the
// kind the generator meant to produce (a disagreement is a harness error).
// For documents that never get past parsing / validation only the document
// class matters.
func (q *Request) Consistent() bool {
	w, ok := kindClass[q.Kind]
	if ok && w[0] != "ok" {
		return w[0] == q.Cls
	}
	return ok && w == [3]string{q.Cls, q.OpSel, q.VarCls}
}

// FromRuleDoc makes q a request for a per-rule document.
func (q *Request) FromRuleDoc(d RuleDoc) {
	q.Query, q.OpName, q.Rule = d.Query, d.OpName, d.Rule
	q.Vars = map[string]any{}
	for k, v := range d.Vars {
		q.Vars[k] = v
	}
}

// Fate says what becomes of the request: accepted | rejected | panicked (the
// model computes the same from the description; this copy is used for
// evidence classes and the non-vacuity counters only).
func (q *Request) Fate(exts []HookSet, tr string) string {
	stage := func(k string) string {
		for i, e := range exts {
			if (k == "pm" && e.PM) || (k == "cm" && e.CM) {
				for _, g := range q.Gates {
					if g.K == k && g.I == i+1 {
						return g.O
					}
				}
			}
		}
		return "acc"
	}
	switch stage("pm") {
	case "pan":
		return "panicked"
	case "rej":
		return "rejected"
	}
	if q.Cls == "vpan" {
		return "panicked"
	}
	if q.Cls != "ok" || q.OpSel != "found" || q.VarCls != "good" {
		return "rejected"
	}
	switch stage("cm") {
	case "pan":
		return "panicked"
	case "rej":
		return "rejected"
	}
	if tr == "get" && q.Opt != "query" {
		return "rejected"
	}
	return "accepted"
}
