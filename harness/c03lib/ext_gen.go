// Code generated for C03 (63 hook-interface subsets); DO NOT EDIT.

package c03lib

import "github.com/99designs/gqlgen/graphql"

type ext01 struct {
	*core
	mPM
}

type ext02 struct {
	*core
	mCM
}

type ext03 struct {
	*core
	mPM
	mCM
}

type ext04 struct {
	*core
	mOI
}

type ext05 struct {
	*core
	mPM
	mOI
}

type ext06 struct {
	*core
	mCM
	mOI
}

type ext07 struct {
	*core
	mPM
	mCM
	mOI
}

type ext08 struct {
	*core
	mRI
}

type ext09 struct {
	*core
	mPM
	mRI
}

type ext10 struct {
	*core
	mCM
	mRI
}

type ext11 struct {
	*core
	mPM
	mCM
	mRI
}

type ext12 struct {
	*core
	mOI
	mRI
}

type ext13 struct {
	*core
	mPM
	mOI
	mRI
}

type ext14 struct {
	*core
	mCM
	mOI
	mRI
}

type ext15 struct {
	*core
	mPM
	mCM
	mOI
	mRI
}

type ext16 struct {
	*core
	mRF
}

type ext17 struct {
	*core
	mPM
	mRF
}

type ext18 struct {
	*core
	mCM
	mRF
}

type ext19 struct {
	*core
	mPM
	mCM
	mRF
}

type ext20 struct {
	*core
	mOI
	mRF
}

type ext21 struct {
	*core
	mPM
	mOI
	mRF
}

type ext22 struct {
	*core
	mCM
	mOI
	mRF
}

type ext23 struct {
	*core
	mPM
	mCM
	mOI
	mRF
}

type ext24 struct {
	*core
	mRI
	mRF
}

type ext25 struct {
	*core
	mPM
	mRI
	mRF
}

type ext26 struct {
	*core
	mCM
	mRI
	mRF
}

type ext27 struct {
	*core
	mPM
	mCM
	mRI
	mRF
}

type ext28 struct {
	*core
	mOI
	mRI
	mRF
}

type ext29 struct {
	*core
	mPM
	mOI
	mRI
	mRF
}

type ext30 struct {
	*core
	mCM
	mOI
	mRI
	mRF
}

type ext31 struct {
	*core
	mPM
	mCM
	mOI
	mRI
	mRF
}

type ext32 struct {
	*core
	mFI
}

type ext33 struct {
	*core
	mPM
	mFI
}

type ext34 struct {
	*core
	mCM
	mFI
}

type ext35 struct {
	*core
	mPM
	mCM
	mFI
}

type ext36 struct {
	*core
	mOI
	mFI
}

type ext37 struct {
	*core
	mPM
	mOI
	mFI
}

type ext38 struct {
	*core
	mCM
	mOI
	mFI
}

type ext39 struct {
	*core
	mPM
	mCM
	mOI
	mFI
}

type ext40 struct {
	*core
	mRI
	mFI
}

type ext41 struct {
	*core
	mPM
	mRI
	mFI
}

type ext42 struct {
	*core
	mCM
	mRI
	mFI
}

type ext43 struct {
	*core
	mPM
	mCM
	mRI
	mFI
}

type ext44 struct {
	*core
	mOI
	mRI
	mFI
}

type ext45 struct {
	*core
	mPM
	mOI
	mRI
	mFI
}

type ext46 struct {
	*core
	mCM
	mOI
	mRI
	mFI
}

type ext47 struct {
	*core
	mPM
	mCM
	mOI
	mRI
	mFI
}

type ext48 struct {
	*core
	mRF
	mFI
}

type ext49 struct {
	*core
	mPM
	mRF
	mFI
}

type ext50 struct {
	*core
	mCM
	mRF
	mFI
}

type ext51 struct {
	*core
	mPM
	mCM
	mRF
	mFI
}

type ext52 struct {
	*core
	mOI
	mRF
	mFI
}

type ext53 struct {
	*core
	mPM
	mOI
	mRF
	mFI
}

type ext54 struct {
	*core
	mCM
	mOI
	mRF
	mFI
}

type ext55 struct {
	*core
	mPM
	mCM
	mOI
	mRF
	mFI
}

type ext56 struct {
	*core
	mRI
	mRF
	mFI
}

type ext57 struct {
	*core
	mPM
	mRI
	mRF
	mFI
}

type ext58 struct {
	*core
	mCM
	mRI
	mRF
	mFI
}

type ext59 struct {
	*core
	mPM
	mCM
	mRI
	mRF
	mFI
}

type ext60 struct {
	*core
	mOI
	mRI
	mRF
	mFI
}

type ext61 struct {
	*core
	mPM
	mOI
	mRI
	mRF
	mFI
}

type ext62 struct {
	*core
	mCM
	mOI
	mRI
	mRF
	mFI
}

type ext63 struct {
	*core
	mPM
	mCM
	mOI
	mRI
	mRF
	mFI
}

// newExtMask builds an extension implementing exactly the hook interfaces in mask
// (bit0 pm, bit1 cm, bit2 oi, bit3 ri, bit4 rf, bit5 fi).
func newExtMask(c *core, mask int) graphql.HandlerExtension {
	switch mask {
	case 1:
		return ext01{core: c, mPM: mPM{c}}
	case 2:
		return ext02{core: c, mCM: mCM{c}}
	case 3:
		return ext03{core: c, mPM: mPM{c}, mCM: mCM{c}}
	case 4:
		return ext04{core: c, mOI: mOI{c}}
	case 5:
		return ext05{core: c, mPM: mPM{c}, mOI: mOI{c}}
	case 6:
		return ext06{core: c, mCM: mCM{c}, mOI: mOI{c}}
	case 7:
		return ext07{core: c, mPM: mPM{c}, mCM: mCM{c}, mOI: mOI{c}}
	case 8:
		return ext08{core: c, mRI: mRI{c}}
	case 9:
		return ext09{core: c, mPM: mPM{c}, mRI: mRI{c}}
	case 10:
		return ext10{core: c, mCM: mCM{c}, mRI: mRI{c}}
	case 11:
		return ext11{core: c, mPM: mPM{c}, mCM: mCM{c}, mRI: mRI{c}}
	case 12:
		return ext12{core: c, mOI: mOI{c}, mRI: mRI{c}}
	case 13:
		return ext13{core: c, mPM: mPM{c}, mOI: mOI{c}, mRI: mRI{c}}
	case 14:
		return ext14{core: c, mCM: mCM{c}, mOI: mOI{c}, mRI: mRI{c}}
	case 15:
		return ext15{core: c, mPM: mPM{c}, mCM: mCM{c}, mOI: mOI{c}, mRI: mRI{c}}
	case 16:
		return ext16{core: c, mRF: mRF{c}}
	case 17:
		return ext17{core: c, mPM: mPM{c}, mRF: mRF{c}}
	case 18:
		return ext18{core: c, mCM: mCM{c}, mRF: mRF{c}}
	case 19:
		return ext19{core: c, mPM: mPM{c}, mCM: mCM{c}, mRF: mRF{c}}
	case 20:
		return ext20{core: c, mOI: mOI{c}, mRF: mRF{c}}
	case 21:
		return ext21{core: c, mPM: mPM{c}, mOI: mOI{c}, mRF: mRF{c}}
	case 22:
		return ext22{core: c, mCM: mCM{c}, mOI: mOI{c}, mRF: mRF{c}}
	case 23:
		return ext23{core: c, mPM: mPM{c}, mCM: mCM{c}, mOI: mOI{c}, mRF: mRF{c}}
	case 24:
		return ext24{core: c, mRI: mRI{c}, mRF: mRF{c}}
	case 25:
		return ext25{core: c, mPM: mPM{c}, mRI: mRI{c}, mRF: mRF{c}}
	case 26:
		return ext26{core: c, mCM: mCM{c}, mRI: mRI{c}, mRF: mRF{c}}
	case 27:
		return ext27{core: c, mPM: mPM{c}, mCM: mCM{c}, mRI: mRI{c}, mRF: mRF{c}}
	case 28:
		return ext28{core: c, mOI: mOI{c}, mRI: mRI{c}, mRF: mRF{c}}
	case 29:
		return ext29{core: c, mPM: mPM{c}, mOI: mOI{c}, mRI: mRI{c}, mRF: mRF{c}}
	case 30:
		return ext30{core: c, mCM: mCM{c}, mOI: mOI{c}, mRI: mRI{c}, mRF: mRF{c}}
	case 31:
		return ext31{core: c, mPM: mPM{c}, mCM: mCM{c}, mOI: mOI{c}, mRI: mRI{c}, mRF: mRF{c}}
	case 32:
		return ext32{core: c, mFI: mFI{c}}
	case 33:
		return ext33{core: c, mPM: mPM{c}, mFI: mFI{c}}
	case 34:
		return ext34{core: c, mCM: mCM{c}, mFI: mFI{c}}
	case 35:
		return ext35{core: c, mPM: mPM{c}, mCM: mCM{c}, mFI: mFI{c}}
	case 36:
		return ext36{core: c, mOI: mOI{c}, mFI: mFI{c}}
	case 37:
		return ext37{core: c, mPM: mPM{c}, mOI: mOI{c}, mFI: mFI{c}}
	case 38:
		return ext38{core: c, mCM: mCM{c}, mOI: mOI{c}, mFI: mFI{c}}
	case 39:
		return ext39{core: c, mPM: mPM{c}, mCM: mCM{c}, mOI: mOI{c}, mFI: mFI{c}}
	case 40:
		return ext40{core: c, mRI: mRI{c}, mFI: mFI{c}}
	case 41:
		return ext41{core: c, mPM: mPM{c}, mRI: mRI{c}, mFI: mFI{c}}
	case 42:
		return ext42{core: c, mCM: mCM{c}, mRI: mRI{c}, mFI: mFI{c}}
	case 43:
		return ext43{core: c, mPM: mPM{c}, mCM: mCM{c}, mRI: mRI{c}, mFI: mFI{c}}
	case 44:
		return ext44{core: c, mOI: mOI{c}, mRI: mRI{c}, mFI: mFI{c}}
	case 45:
		return ext45{core: c, mPM: mPM{c}, mOI: mOI{c}, mRI: mRI{c}, mFI: mFI{c}}
	case 46:
		return ext46{core: c, mCM: mCM{c}, mOI: mOI{c}, mRI: mRI{c}, mFI: mFI{c}}
	case 47:
		return ext47{core: c, mPM: mPM{c}, mCM: mCM{c}, mOI: mOI{c}, mRI: mRI{c}, mFI: mFI{c}}
	case 48:
		return ext48{core: c, mRF: mRF{c}, mFI: mFI{c}}
	case 49:
		return ext49{core: c, mPM: mPM{c}, mRF: mRF{c}, mFI: mFI{c}}
	case 50:
		return ext50{core: c, mCM: mCM{c}, mRF: mRF{c}, mFI: mFI{c}}
	case 51:
		return ext51{core: c, mPM: mPM{c}, mCM: mCM{c}, mRF: mRF{c}, mFI: mFI{c}}
	case 52:
		return ext52{core: c, mOI: mOI{c}, mRF: mRF{c}, mFI: mFI{c}}
	case 53:
		return ext53{core: c, mPM: mPM{c}, mOI: mOI{c}, mRF: mRF{c}, mFI: mFI{c}}
	case 54:
		return ext54{core: c, mCM: mCM{c}, mOI: mOI{c}, mRF: mRF{c}, mFI: mFI{c}}
	case 55:
		return ext55{core: c, mPM: mPM{c}, mCM: mCM{c}, mOI: mOI{c}, mRF: mRF{c}, mFI: mFI{c}}
	case 56:
		return ext56{core: c, mRI: mRI{c}, mRF: mRF{c}, mFI: mFI{c}}
	case 57:
		return ext57{core: c, mPM: mPM{c}, mRI: mRI{c}, mRF: mRF{c}, mFI: mFI{c}}
	case 58:
		return ext58{core: c, mCM: mCM{c}, mRI: mRI{c}, mRF: mRF{c}, mFI: mFI{c}}
	case 59:
		return ext59{core: c, mPM: mPM{c}, mCM: mCM{c}, mRI: mRI{c}, mRF: mRF{c}, mFI: mFI{c}}
	case 60:
		return ext60{core: c, mOI: mOI{c}, mRI: mRI{c}, mRF: mRF{c}, mFI: mFI{c}}
	case 61:
		return ext61{core: c, mPM: mPM{c}, mOI: mOI{c}, mRI: mRI{c}, mRF: mRF{c}, mFI: mFI{c}}
	case 62:
		return ext62{core: c, mCM: mCM{c}, mOI: mOI{c}, mRI: mRI{c}, mRF: mRF{c}, mFI: mFI{c}}
	case 63:
		return ext63{core: c, mPM: mPM{c}, mCM: mCM{c}, mOI: mOI{c}, mRI: mRI{c}, mRF: mRF{c}, mFI: mFI{c}}
	}
	panic("c03lib: empty hook mask")
}
