// Package c03lib is the harness of property C03: instrumented handler
// extensions, a hand-written ExecutableSchema whose resolvers log, a logging /
// gating query cache, the request alphabet and the session drivers. Everything
// here is user code from gqlgen's point of view; /repo is not modified.
package c03lib

import (
	"context"
	"fmt"
	"sync"

	"github.com/vektah/gqlparser/v2/gqlerror"

	"github.com/99designs/gqlgen/graphql"
)

// Ev is one recorded event. All events carry the same keys (TLC's Json module
// turns objects into records). e is always "H" for events written by the
// tracer; k is the kind (pm cm oi ri rf fi exec res resp cget cadd), d the
// direction or outcome (in out call | data errors nil mixed | hit miss),
// i the 1-based registration index of the extension (0: none), f the field
// path or the query id.
type Ev struct {
	E string `json:"e"`
	R int    `json:"r"`
	K string `json:"k"`
	D string `json:"d"`
	I int    `json:"i"`
	F string `json:"f"`
}

// Tracer linearizes the events of one session: an event IS the Log call, so
// the slice order is a linearization of the logged points.
type Tracer struct {
	mu  sync.Mutex
	evs []any
}

func (t *Tracer) Log(r int, k, d string, i int, f string) {
	t.mu.Lock()
	t.evs = append(t.evs, Ev{E: "H", R: r, K: k, D: d, I: i, F: f})
	t.mu.Unlock()
}

func (t *Tracer) Raw(v any) {
	t.mu.Lock()
	t.evs = append(t.evs, v)
	t.mu.Unlock()
}

func (t *Tracer) Events() []any {
	t.mu.Lock()
	defer t.mu.Unlock()
	out := make([]any, len(t.evs))
	copy(out, t.evs)
	return out
}

// Rej is the rejection command of a request: which mutator (kind pm|cm,
// registration index) answers with an error; K "none" for no rejection.
type Rej struct {
	K string `json:"k"`
	I int    `json:"i"`
}

// ReqInfo travels in the request context; hooks, cache and resolvers read the
// request id and the rejection command from it.
type ReqInfo struct {
	ID  int
	Rej Rej
	T   *Tracer
	QID func(query string) string // query text -> query id of the session
}

type ctxKey struct{}

func WithInfo(ctx context.Context, ri *ReqInfo) context.Context {
	return context.WithValue(ctx, ctxKey{}, ri)
}

func info(ctx context.Context) *ReqInfo {
	ri, _ := ctx.Value(ctxKey{}).(*ReqInfo)
	if ri == nil {
		panic("c03lib: request context without ReqInfo (harness error)")
	}
	return ri
}

func fieldPath(ctx context.Context) string {
	fc := graphql.GetFieldContext(ctx)
	if fc == nil {
		return "?"
	}
	return fc.Path().String()
}

// HookSet says which hook interfaces an extension implements.
type HookSet struct {
	PM bool `json:"pm"`
	CM bool `json:"cm"`
	OI bool `json:"oi"`
	RI bool `json:"ri"`
	RF bool `json:"rf"`
	FI bool `json:"fi"`
}

func (h HookSet) Mask() int {
	m := 0
	for b, v := range []bool{h.PM, h.CM, h.OI, h.RI, h.RF, h.FI} {
		if v {
			m |= 1 << b
		}
	}
	return m
}

func HookSetOf(mask int) HookSet {
	return HookSet{PM: mask&1 != 0, CM: mask&2 != 0, OI: mask&4 != 0, RI: mask&8 != 0, RF: mask&16 != 0, FI: mask&32 != 0}
}

// NewExt returns an instrumented extension registered at position idx
// (1-based) implementing exactly the interfaces of hs.
func NewExt(idx int, hs HookSet) graphql.HandlerExtension {
	return newExtMask(&core{idx: idx}, hs.Mask())
}

type core struct{ idx int }

func (c *core) ExtensionName() string                          { return fmt.Sprintf("C03Ext%d", c.idx) }
func (c *core) Validate(schema graphql.ExecutableSchema) error { return nil }

type mPM struct{ c *core }

func (m mPM) MutateOperationParameters(ctx context.Context, p *graphql.RawParams) *gqlerror.Error {
	ri := info(ctx)
	ri.T.Log(ri.ID, "pm", "call", m.c.idx, "")
	if ri.Rej.K == "pm" && ri.Rej.I == m.c.idx {
		return gqlerror.Errorf("rejected by parameter mutator %d", m.c.idx)
	}
	return nil
}

type mCM struct{ c *core }

func (m mCM) MutateOperationContext(ctx context.Context, oc *graphql.OperationContext) *gqlerror.Error {
	ri := info(ctx)
	ri.T.Log(ri.ID, "cm", "call", m.c.idx, "")
	if ri.Rej.K == "cm" && ri.Rej.I == m.c.idx {
		return gqlerror.Errorf("rejected by context mutator %d", m.c.idx)
	}
	return nil
}

type mOI struct{ c *core }

func (m mOI) InterceptOperation(ctx context.Context, next graphql.OperationHandler) graphql.ResponseHandler {
	ri := info(ctx)
	ri.T.Log(ri.ID, "oi", "in", m.c.idx, "")
	rh := next(ctx)
	ri.T.Log(ri.ID, "oi", "out", m.c.idx, "")
	return rh
}

type mRI struct{ c *core }

func (m mRI) InterceptResponse(ctx context.Context, next graphql.ResponseHandler) *graphql.Response {
	ri := info(ctx)
	ri.T.Log(ri.ID, "ri", "in", m.c.idx, "")
	resp := next(ctx)
	ri.T.Log(ri.ID, "ri", "out", m.c.idx, "")
	return resp
}

type mRF struct{ c *core }

func (m mRF) InterceptRootField(ctx context.Context, next graphql.RootResolver) graphql.Marshaler {
	ri := info(ctx)
	f := fieldPath(ctx)
	ri.T.Log(ri.ID, "rf", "in", m.c.idx, f)
	res := next(ctx)
	ri.T.Log(ri.ID, "rf", "out", m.c.idx, f)
	return res
}

type mFI struct{ c *core }

func (m mFI) InterceptField(ctx context.Context, next graphql.Resolver) (any, error) {
	ri := info(ctx)
	f := fieldPath(ctx)
	ri.T.Log(ri.ID, "fi", "in", m.c.idx, f)
	res, err := next(ctx)
	ri.T.Log(ri.ID, "fi", "out", m.c.idx, f)
	return res, err
}
