// Package c03lib is the harness of property C03: instrumented handler
// extensions, a hand-written ExecutableSchema whose resolvers log, a logging /
// gating query cache, the request alphabet and the session drivers. Everything
// here is user code from gqlgen's point of view; /repo is not modified.
package c03lib

import (
	"context"
	"crypto/sha256"
	"encoding/hex"
	"fmt"
	"math"
	"sync"

	"github.com/vektah/gqlparser/v2/gqlerror"

	"github.com/99designs/gqlgen/graphql"
	"github.com/99designs/gqlgen/graphql/handler/extension"
)

// Ev is one recorded event. All events carry the same keys (TLC's Json module
// turns objects into records). e is always "H" for events written by the
// tracer; k is the kind (pm cm oi ri rf fi exec res resp cget cadd), d the
// direction or outcome (in out call | data errors nil mixed | hit miss),
// i the 1-based registration index of the extension (0: none), f the field
// path or the query id.
type Ev struct {
	E string `json:"e"`
	R int    `json:"r"`
	K string `json:"k"`
	D string `json:"d"`
	I int    `json:"i"`
	F string `json:"f"`
}

// Tracer linearizes the events of one session: an event IS the Log call, so
// the slice order is a linearization of the logged points.
type Tracer struct {
	mu  sync.Mutex
	evs []any
}

func (t *Tracer) Log(r int, k, d string, i int, f string) {
	t.mu.Lock()
	t.evs = append(t.evs, Ev{E: "H", R: r, K: k, D: d, I: i, F: f})
	t.mu.Unlock()
}

func (t *Tracer) Raw(v any) {
	t.mu.Lock()
	t.evs = append(t.evs, v)
	t.mu.Unlock()
}

func (t *Tracer) Events() []any {
	t.mu.Lock()
	defer t.mu.Unlock()
	out := make([]any, len(t.evs))
	copy(out, t.evs)
	return out
}

// Gate is one command of a request's gate plan: the mutator gate (kind pm|cm,
// registration index I) does not let this request pass: O "rej" - it returns
// an error; O "pan" - it panics (an unchecked type assertion on an extension
// value, an index into a missing header ...). Gates not named pass.
type Gate struct {
	K string `json:"k"`
	I int    `json:"i"`
	O string `json:"o"`
}

// GatePanic is the value a gate panics with on command (so that the planned
// panics can be told from panics of gqlgen or of the harness).
type GatePanic struct{ What string }

func (g GatePanic) Error() string { return "c03 gate panic: " + g.What }

// IsGatePanic reports whether a recovered value is a planned gate panic.
func IsGatePanic(v any) bool {
	switch v.(type) {
	case GatePanic, *GatePanic:
		return true
	}
	return false
}

// ReqInfo travels in the request context; hooks, cache and resolvers read the
// request id and the gate plan from it.
type ReqInfo struct {
	ID    int
	Gates []Gate
	T     *Tracer
	QID   func(query string) string // query text -> query id of the session
}

// Outcome is what gate (k, idx) does with this request: acc | rej | pan.
func (ri *ReqInfo) Outcome(k string, idx int) string {
	for _, g := range ri.Gates {
		if g.K == k && g.I == idx {
			return g.O
		}
	}
	return "acc"
}

type ctxKey struct{}

func WithInfo(ctx context.Context, ri *ReqInfo) context.Context {
	return context.WithValue(ctx, ctxKey{}, ri)
}

func info(ctx context.Context) *ReqInfo {
	ri, _ := ctx.Value(ctxKey{}).(*ReqInfo)
	if ri == nil {
		panic("c03lib: request context without ReqInfo (harness error)")
	}
	return ri
}

func fieldPath(ctx context.Context) string {
	fc := graphql.GetFieldContext(ctx)
	if fc == nil {
		return "?"
	}
	return fc.Path().String()
}

// HookSet says which hook interfaces an extension implements.
type HookSet struct {
	PM bool `json:"pm"`
	CM bool `json:"cm"`
	OI bool `json:"oi"`
	RI bool `json:"ri"`
	RF bool `json:"rf"`
	FI bool `json:"fi"`
}

func (h HookSet) Mask() int {
	m := 0
	for b, v := range []bool{h.PM, h.CM, h.OI, h.RI, h.RF, h.FI} {
		if v {
			m |= 1 << b
		}
	}
	return m
}

func HookSetOf(mask int) HookSet {
	return HookSet{PM: mask&1 != 0, CM: mask&2 != 0, OI: mask&4 != 0, RI: mask&8 != 0, RF: mask&16 != 0, FI: mask&32 != 0}
}

// NewExt returns an instrumented extension registered at position idx
// (1-based) implementing exactly the interfaces of hs.
func NewExt(idx int, hs HookSet) graphql.HandlerExtension {
	return newExtMask(&core{idx: idx}, hs.Mask())
}

// NewGate returns the extension registered at position idx. impl "" is the
// instrumented extension of NewExt. The other two are gqlgen's OWN gate
// extensions with the user-supplied part driven by the gate plan:
//
//	"complexity" (hs must be CM only): extension.ComplexityLimit whose limit
//	   function logs the call and returns a generous limit (pass), a limit of
//	   -1 (the extension rejects: complexity exceeded) or panics;
//	"apq" (hs must be PM only): extension.AutomaticPersistedQuery over a cache
//	   that logs the call; the client sends the persistedQuery extension with
//	   the right hash - with the query (Add: pass, or the cache panics) or,
//	   for a rejection, without it (Get: miss, PersistedQueryNotFound).
func NewGate(idx int, hs HookSet, impl string) graphql.HandlerExtension {
	switch {
	case impl == "complexity" && hs == HookSet{CM: true}:
		return &extension.ComplexityLimit{Func: func(ctx context.Context, oc *graphql.OperationContext) int {
			ri := info(ctx)
			ri.T.Log(ri.ID, "cm", "call", idx, "")
			switch ri.Outcome("cm", idx) {
			case "rej":
				return -1
			case "pan":
				panic(GatePanic{fmt.Sprintf("complexity limit function of extension %d", idx)})
			}
			return math.MaxInt32
		}}
	case impl == "apq" && hs == HookSet{PM: true}:
		return extension.AutomaticPersistedQuery{Cache: apqGateCache{idx}}
	case impl != "":
		panic(fmt.Sprintf("c03lib: gate implementation %q does not fit hook set %+v", impl, hs))
	}
	return NewExt(idx, hs)
}

// apqGateCache is the persisted-query store of the APQ gate: empty, so a
// hash sent without its query is PersistedQueryNotFound.
type apqGateCache struct{ idx int }

func (a apqGateCache) act(ctx context.Context) {
	ri := info(ctx)
	ri.T.Log(ri.ID, "pm", "call", a.idx, "")
	if ri.Outcome("pm", a.idx) == "pan" {
		panic(GatePanic{fmt.Sprintf("persisted-query cache of extension %d", a.idx)})
	}
}

func (a apqGateCache) Get(ctx context.Context, key string) (string, bool) {
	a.act(ctx)
	return "", false
}

func (a apqGateCache) Add(ctx context.Context, key, value string) { a.act(ctx) }

// ApqParams is what a client of a server with an APQ gate at position idx
// (0: none) sends: the query text (empty for a commanded rejection: hash only)
// and the extensions object.
func ApqParams(q *Request, exts []HookSet, impl []string) (query string, extensions map[string]any) {
	for i := range exts {
		if i < len(impl) && impl[i] == "apq" {
			sum := sha256.Sum256([]byte(q.Query))
			extensions = map[string]any{"persistedQuery": map[string]any{"version": 1, "sha256Hash": hex.EncodeToString(sum[:])}}
			query = q.Query
			for _, g := range q.Gates {
				if g.K == "pm" && g.I == i+1 && g.O == "rej" {
					query = ""
				}
			}
			return query, extensions
		}
	}
	return q.Query, nil
}

type core struct{ idx int }

func (c *core) ExtensionName() string                          { return fmt.Sprintf("C03Ext%d", c.idx) }
func (c *core) Validate(schema graphql.ExecutableSchema) error { return nil }

type mPM struct{ c *core }

func (m mPM) MutateOperationParameters(ctx context.Context, p *graphql.RawParams) *gqlerror.Error {
	ri := info(ctx)
	ri.T.Log(ri.ID, "pm", "call", m.c.idx, "")
	switch ri.Outcome("pm", m.c.idx) {
	case "rej":
		return gqlerror.Errorf("rejected by parameter mutator %d", m.c.idx)
	case "pan":
		panic(GatePanic{fmt.Sprintf("parameter mutator %d", m.c.idx)})
	}
	return nil
}

type mCM struct{ c *core }

func (m mCM) MutateOperationContext(ctx context.Context, oc *graphql.OperationContext) *gqlerror.Error {
	ri := info(ctx)
	ri.T.Log(ri.ID, "cm", "call", m.c.idx, "")
	switch ri.Outcome("cm", m.c.idx) {
	case "rej":
		return gqlerror.Errorf("rejected by context mutator %d", m.c.idx)
	case "pan":
		panic(GatePanic{fmt.Sprintf("context mutator %d", m.c.idx)})
	}
	return nil
}

type mOI struct{ c *core }

func (m mOI) InterceptOperation(ctx context.Context, next graphql.OperationHandler) graphql.ResponseHandler {
	ri := info(ctx)
	ri.T.Log(ri.ID, "oi", "in", m.c.idx, "")
	rh := next(ctx)
	ri.T.Log(ri.ID, "oi", "out", m.c.idx, "")
	return rh
}

type mRI struct{ c *core }

func (m mRI) InterceptResponse(ctx context.Context, next graphql.ResponseHandler) *graphql.Response {
	ri := info(ctx)
	ri.T.Log(ri.ID, "ri", "in", m.c.idx, "")
	resp := next(ctx)
	ri.T.Log(ri.ID, "ri", "out", m.c.idx, "")
	return resp
}

type mRF struct{ c *core }

func (m mRF) InterceptRootField(ctx context.Context, next graphql.RootResolver) graphql.Marshaler {
	ri := info(ctx)
	f := fieldPath(ctx)
	ri.T.Log(ri.ID, "rf", "in", m.c.idx, f)
	res := next(ctx)
	ri.T.Log(ri.ID, "rf", "out", m.c.idx, f)
	return res
}

type mFI struct{ c *core }

func (m mFI) InterceptField(ctx context.Context, next graphql.Resolver) (any, error) {
	ri := info(ctx)
	f := fieldPath(ctx)
	ri.T.Log(ri.ID, "fi", "in", m.c.idx, f)
	res, err := next(ctx)
	ri.T.Log(ri.ID, "fi", "out", m.c.idx, f)
	return res, err
}
