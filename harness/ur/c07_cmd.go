package ur

// C07 (a response depends only on its own request, not on earlier or
// concurrent ones): protocol command "c07". The probe's GENERATED executable
// schema is served by real handler.Servers (POST and GET transports, LRU
// query cache) behind a real net/http server; the universal resolver with a
// fixed plan per request is deterministic. Every answer (status, Content-Type,
// body) is compared with the answer to the same request served ALONE by a
// freshly constructed server.
//
// Modes:
//
//	gated  concurrent requests driven through a prescribed order of their
//	       Execute / Write steps (spec/HttpState.tla, MC_HttpStateHeld): an
//	       AroundResponses interceptor parks a request before next(ctx)
//	       (Execute) and again after it returned (the response is HELD until
//	       its Write is due). Runs with GOMAXPROCS(procs), normally 1.
//	free   ungated stress: `clients` goroutines, `rounds` requests each; the
//	       interceptor yields a few times after next(ctx) for every
//	       hold_every-th request (a slow writer) - a stimulus, never a verdict.
//	seq    histories (request indexes) served one request after the other,
//	       each history on a fresh server.
//	burst  as seq, but the requests of a history are fired at once.
//
// A request may name response paths at which the server's field interceptor
// returns the server's SENTINEL *gqlerror.Error (one value per server, as a
// package-level `var ErrX = &gqlerror.Error{...}` of a resolver package would
// be): in generated code this takes the same route as a resolver returning it
// (ResolverMiddleware -> ec.Error -> graphql.AddError -> graphql.ErrorOnPath).

import (
	"bytes"
	"context"
	"encoding/json"
	"fmt"
	"io"
	"net/http"
	"net/http/httptest"
	"net/url"
	"runtime"
	"sort"
	"strconv"
	"strings"
	"sync"
	"sync/atomic"
	"time"

	"github.com/vektah/gqlparser/v2/ast"
	"github.com/vektah/gqlparser/v2/gqlerror"

	"github.com/99designs/gqlgen/graphql"
	"github.com/99designs/gqlgen/graphql/handler"
	"github.com/99designs/gqlgen/graphql/handler/lru"
	"github.com/99designs/gqlgen/graphql/handler/transport"
)

type C07Req struct {
	Method   string             `json:"method"` // POST | GET
	Query    string             `json:"query"`
	OpName   string             `json:"opname"`
	Vars     map[string]any     `json:"vars"`
	Plan     map[string]Outcome `json:"plan"`
	DirPlan  map[string]string  `json:"dirplan"`
	Accept   string             `json:"accept"`
	Sentinel []string           `json:"sentinel"` // response paths failing with the server's sentinel error
}

// C07Ev is one step of a schedule: Ev = "Execute" | "Write", Slot 1-based.
type C07Ev struct {
	Ev   string `json:"ev"`
	Slot int    `json:"slot"`
}

type C07Sched struct {
	Reqs []int   `json:"reqs"` // request index per slot
	Evs  []C07Ev `json:"evs"`
}

type C07Cmd struct {
	Cmd       string     `json:"cmd"`
	ID        string     `json:"id"`
	Mode      string     `json:"mode"`
	Procs     int        `json:"procs"`
	Reqs      []C07Req   `json:"reqs"`
	Scheds    []C07Sched `json:"scheds"`
	Hists     [][]int    `json:"hists"`
	Clients   int        `json:"clients"`
	Rounds    int        `json:"rounds"`
	HoldEvery int        `json:"hold_every"`
	ServerPer int        `json:"server_per"` // gated: a new server every n schedules (0 = one server for all)
}

type C07Ans struct {
	Status int    `json:"status"`
	CType  string `json:"ctype"`
	Body   string `json:"body"` // data bytes verbatim, errors sorted
}

type C07Diff struct {
	Where string    `json:"where"`
	Req   int       `json:"req"`
	Got   C07Ans    `json:"got"`
	Want  C07Ans    `json:"want"`
	Sched *C07Sched `json:"sched,omitempty"`
	Hist  []int     `json:"hist,omitempty"`
	Pos   int       `json:"pos"`
}

type C07Res struct {
	ID       string    `json:"id"`
	Err      string    `json:"err"` // harness-level problem (never a verdict)
	Alone    []C07Ans  `json:"alone"`
	Disagree []int     `json:"disagree"` // requests two fresh servers answered differently
	Diffs    []C07Diff `json:"diffs"`
	NDiffs   int       `json:"ndiffs"`
	Requests int       `json:"requests"`
	Runs     int       `json:"runs"`   // schedules / histories executed
	Held     int       `json:"held"`   // Execute steps taken while another response was held
	Yields   int       `json:"yields"` // free mode: responses held by yielding
}

type c07Key struct{}

type c07Call struct {
	req   *C07Req
	slot  int
	gates *c07Gates
	hold  int
	sent  map[string]bool
}

type c07Gates struct {
	g1, g2, at1, at2 []chan struct{}
	stuck            atomic.Bool
}

func c07NewGates(n int) *c07Gates {
	g := &c07Gates{}
	for i := 0; i < n; i++ {
		g.g1 = append(g.g1, make(chan struct{}))
		g.g2 = append(g.g2, make(chan struct{}))
		g.at1 = append(g.at1, make(chan struct{}))
		g.at2 = append(g.at2, make(chan struct{}))
	}
	return g
}

const c07Wait = 20 * time.Second

func c07Await(ch chan struct{}) bool {
	select {
	case <-ch:
		return true
	case <-time.After(c07Wait):
		return false
	}
}

type c07Server struct {
	p        *Probe
	reqs     []C07Req
	ts       *httptest.Server
	hc       *http.Client
	sentinel *gqlerror.Error
	yields   atomic.Int64
}

func (p *Probe) c07NewServer(reqs []C07Req) *c07Server {
	s := &c07Server{p: p, reqs: reqs}
	// the sentinel of this server's "resolver package": constructed once, returned as it is
	s.sentinel = &gqlerror.Error{Message: "E:sentinel", Extensions: map[string]any{"code": "NOT_FOUND"}}
	srv := handler.New(p.ES)
	srv.AddTransport(transport.GET{})
	srv.AddTransport(transport.POST{})
	srv.SetQueryCache(lru.New[*ast.QueryDocument](64))
	srv.SetRecoverFunc(RecoverFunc)
	srv.SetErrorPresenter(ErrorPresenter)
	srv.AroundFields(func(ctx context.Context, next graphql.Resolver) (any, error) {
		call, _ := ctx.Value(c07Key{}).(*c07Call)
		if call != nil && len(call.sent) > 0 {
			if fc := graphql.GetFieldContext(ctx); fc != nil && call.sent[PathKey(fc.Path())] {
				return nil, s.sentinel
			}
		}
		return next(ctx)
	})
	srv.AroundResponses(func(ctx context.Context, next graphql.ResponseHandler) *graphql.Response {
		call, _ := ctx.Value(c07Key{}).(*c07Call)
		if call == nil {
			return next(ctx)
		}
		if g := call.gates; g != nil {
			close(g.at1[call.slot])
			if !c07Await(g.g1[call.slot]) {
				g.stuck.Store(true)
			}
		}
		resp := next(ctx) // Execute
		if g := call.gates; g != nil {
			close(g.at2[call.slot]) // the response is held
			if !c07Await(g.g2[call.slot]) {
				g.stuck.Store(true)
			}
		} else if call.hold > 0 {
			s.yields.Add(1)
			for i := 0; i < call.hold; i++ {
				runtime.Gosched()
			}
			time.Sleep(time.Duration(call.hold) * 20 * time.Microsecond)
		}
		return resp // Write follows in the transport
	})
	s.ts = httptest.NewServer(http.HandlerFunc(func(w http.ResponseWriter, r *http.Request) {
		idx, err := strconv.Atoi(r.Header.Get("X-C07-Req"))
		if err != nil || idx < 0 || idx >= len(s.reqs) {
			http.Error(w, "c07: bad request index", 599)
			return
		}
		rq := &s.reqs[idx]
		c := &c07Call{req: rq, slot: -1}
		if v := r.Header.Get("X-C07-Hold"); v != "" {
			c.hold, _ = strconv.Atoi(v)
		}
		if v := r.Header.Get("X-C07-Gate"); v != "" {
			if g, ok := c07GateReg.Load(v); ok {
				c.gates = g.(*c07Gates)
				c.slot, _ = strconv.Atoi(r.Header.Get("X-C07-Slot"))
			}
		}
		if len(rq.Sentinel) > 0 {
			c.sent = map[string]bool{}
			for _, p := range rq.Sentinel {
				c.sent[p] = true
			}
		}
		run := NewRun()
		if rq.Plan != nil {
			run.Plan = rq.Plan
		}
		if rq.DirPlan != nil {
			run.DirPlan = rq.DirPlan
		}
		defer run.Finish()
		defer func() {
			if rec := recover(); rec != nil {
				w.WriteHeader(598)
				fmt.Fprintf(w, "PANIC escaped handler.Server: %v", rec)
			}
		}()
		ctx := context.WithValue(WithRun(r.Context(), run), c07Key{}, c)
		srv.ServeHTTP(w, r.WithContext(ctx))
	}))
	s.hc = &http.Client{Transport: &http.Transport{MaxIdleConnsPerHost: 32, DisableCompression: true}, Timeout: 3 * c07Wait}
	return s
}

var c07GateReg sync.Map // gate id -> *c07Gates
var c07GateSeq atomic.Int64

func (s *c07Server) close() {
	s.hc.CloseIdleConnections()
	s.ts.Close()
}

// do sends request idx; gate/slot/hold travel in harness headers.
func (s *c07Server) do(idx int, gate string, slot, hold int) (C07Ans, error) {
	rq := &s.reqs[idx]
	var req *http.Request
	var err error
	if rq.Method == "GET" {
		v := url.Values{}
		v.Set("query", rq.Query)
		if rq.OpName != "" {
			v.Set("operationName", rq.OpName)
		}
		if len(rq.Vars) > 0 {
			b, _ := json.Marshal(rq.Vars)
			v.Set("variables", string(b))
		}
		req, err = http.NewRequest("GET", s.ts.URL+"/query?"+v.Encode(), nil)
	} else {
		m := map[string]any{"query": rq.Query}
		if rq.OpName != "" {
			m["operationName"] = rq.OpName
		}
		if len(rq.Vars) > 0 {
			m["variables"] = rq.Vars
		}
		b, _ := json.Marshal(m)
		req, err = http.NewRequest("POST", s.ts.URL+"/query", bytes.NewReader(b))
		if err == nil {
			req.Header.Set("Content-Type", "application/json")
		}
	}
	if err != nil {
		return C07Ans{}, err
	}
	req.Header.Set("X-C07-Req", strconv.Itoa(idx))
	if rq.Accept != "" {
		req.Header.Set("Accept", rq.Accept)
	}
	if gate != "" {
		req.Header.Set("X-C07-Gate", gate)
		req.Header.Set("X-C07-Slot", strconv.Itoa(slot))
	}
	if hold > 0 {
		req.Header.Set("X-C07-Hold", strconv.Itoa(hold))
	}
	resp, err := s.hc.Do(req)
	if err != nil {
		return C07Ans{}, err
	}
	b, err := io.ReadAll(resp.Body)
	resp.Body.Close()
	if err != nil {
		return C07Ans{}, err
	}
	return C07Ans{Status: resp.StatusCode, CType: resp.Header.Get("Content-Type"), Body: C07Canon(b)}, nil
}

// C07Canon keeps the data bytes verbatim and sorts the errors (fields of one
// object are resolved concurrently: the ORDER of the errors list is not a
// function of the request; their content is).
func C07Canon(b []byte) string {
	var env struct {
		Errors []json.RawMessage `json:"errors"`
		Data   json.RawMessage   `json:"data"`
	}
	dec := json.NewDecoder(bytes.NewReader(b))
	dec.DisallowUnknownFields()
	if err := dec.Decode(&env); err != nil || dec.More() {
		return "RAW:" + string(b)
	}
	es := make([]string, len(env.Errors))
	for i, e := range env.Errors {
		es[i] = string(e)
	}
	sort.Strings(es)
	d := string(env.Data)
	if d == "" {
		d = "absent"
	}
	return `{"data":` + d + `,"errors":[` + strings.Join(es, ",") + `]}`
}

func (p *Probe) c07Alone(c *C07Cmd, res *C07Res) bool {
	res.Alone = make([]C07Ans, len(c.Reqs))
	for i := range c.Reqs {
		var two [2]C07Ans
		for k := 0; k < 2; k++ {
			s := p.c07NewServer(c.Reqs)
			a, err := s.do(i, "", 0, 0)
			s.close()
			if err != nil {
				res.Err = fmt.Sprintf("alone request %d: %v", i, err)
				return false
			}
			two[k] = a
		}
		res.Alone[i] = two[0]
		res.Requests += 2
		if two[0] != two[1] {
			res.Disagree = append(res.Disagree, i)
		}
	}
	return true
}

func (res *C07Res) diff(d C07Diff) {
	res.NDiffs++
	if len(res.Diffs) < 12 {
		res.Diffs = append(res.Diffs, d)
	}
}

func (p *Probe) c07Gated(c *C07Cmd, res *C07Res) {
	var s *c07Server
	defer func() {
		if s != nil {
			s.close()
		}
	}()
	for si := range c.Scheds {
		sc := &c.Scheds[si]
		if s == nil || (c.ServerPer > 0 && si%c.ServerPer == 0) {
			if s != nil {
				s.close()
			}
			s = p.c07NewServer(c.Reqs)
		}
		n := len(sc.Reqs)
		g := c07NewGates(n)
		gid := strconv.FormatInt(c07GateSeq.Add(1), 10)
		c07GateReg.Store(gid, g)
		ans := make([]C07Ans, n)
		errs := make([]error, n)
		done := make([]chan struct{}, n)
		for k := 0; k < n; k++ {
			done[k] = make(chan struct{})
			go func(k int) {
				defer close(done[k])
				ans[k], errs[k] = s.do(sc.Reqs[k], gid, k, 0)
			}(k)
		}
		fail := func(format string, a ...any) {
			res.Err = fmt.Sprintf("schedule %d %v: ", si, sc.Evs) + fmt.Sprintf(format, a...)
			for k := 0; k < n; k++ { // let everything go
				select {
				case <-g.g1[k]:
				default:
					close(g.g1[k])
				}
				select {
				case <-g.g2[k]:
				default:
					close(g.g2[k])
				}
			}
		}
		ok := true
		for k := 0; k < n && ok; k++ {
			if !c07Await(g.at1[k]) {
				fail("request of slot %d never reached the response interceptor", k+1)
				ok = false
			}
		}
		executed := make([]bool, n)
		written := make([]bool, n)
		for _, ev := range sc.Evs {
			if !ok {
				break
			}
			k := ev.Slot - 1
			switch ev.Ev {
			case "Execute":
				for j := 0; j < n; j++ {
					if j != k && executed[j] && !written[j] {
						res.Held++
						break
					}
				}
				close(g.g1[k])
				executed[k] = true
				if !c07Await(g.at2[k]) {
					fail("execution of slot %d did not return", k+1)
					ok = false
				}
			case "Write":
				if !executed[k] {
					fail("Write before Execute for slot %d", k+1)
					ok = false
					break
				}
				close(g.g2[k])
				written[k] = true
				if !c07Await(done[k]) {
					fail("response of slot %d was not received", k+1)
					ok = false
				}
			}
		}
		if ok { // an incomplete schedule: the rest in slot order
			for k := 0; k < n; k++ {
				if !executed[k] {
					close(g.g1[k])
				}
				if !written[k] {
					if !c07Await(g.at2[k]) {
						fail("execution of slot %d did not return", k+1)
						ok = false
						break
					}
					close(g.g2[k])
				}
			}
		}
		for k := 0; k < n; k++ {
			if !c07Await(done[k]) && res.Err == "" {
				res.Err = fmt.Sprintf("schedule %d: client of slot %d did not return", si, k+1)
			}
		}
		c07GateReg.Delete(gid)
		if g.stuck.Load() && res.Err == "" {
			res.Err = fmt.Sprintf("schedule %d: a gate was not released in time", si)
		}
		if res.Err != "" {
			return
		}
		res.Runs++
		for k := 0; k < n; k++ {
			if errs[k] != nil {
				res.Err = fmt.Sprintf("schedule %d slot %d: %v", si, k+1, errs[k])
				return
			}
			res.Requests++
			if want := res.Alone[sc.Reqs[k]]; ans[k] != want {
				res.diff(C07Diff{Where: "gated", Req: sc.Reqs[k], Got: ans[k], Want: want, Sched: sc, Pos: k})
			}
		}
	}
}

func (p *Probe) c07Free(c *C07Cmd, res *C07Res) {
	s := p.c07NewServer(c.Reqs)
	defer s.close()
	var mu sync.Mutex
	var wg sync.WaitGroup
	for cl := 0; cl < c.Clients; cl++ {
		wg.Add(1)
		go func(cl int) {
			defer wg.Done()
			for r := 0; r < c.Rounds; r++ {
				idx := (cl*7 + r*3 + r/5 + cl*r) % len(c.Reqs)
				hold := 0
				if c.HoldEvery > 0 && (r+cl)%c.HoldEvery == 0 {
					hold = 1 + (r+cl)%4
				}
				a, err := s.do(idx, "", 0, hold)
				mu.Lock()
				if err != nil {
					if res.Err == "" {
						res.Err = fmt.Sprintf("free client %d round %d: %v", cl, r, err)
					}
					mu.Unlock()
					return
				}
				res.Requests++
				if want := res.Alone[idx]; a != want {
					res.diff(C07Diff{Where: "free", Req: idx, Got: a, Want: want, Pos: r})
				}
				mu.Unlock()
			}
		}(cl)
	}
	wg.Wait()
	res.Runs = 1
	res.Yields = int(s.yields.Load())
}

func (p *Probe) c07Hists(c *C07Cmd, res *C07Res, burst bool) {
	for hi, h := range c.Hists {
		s := p.c07NewServer(c.Reqs)
		ans := make([]C07Ans, len(h))
		errs := make([]error, len(h))
		if burst {
			var wg sync.WaitGroup
			start := make(chan struct{})
			for k := range h {
				wg.Add(1)
				go func(k int) {
					defer wg.Done()
					<-start
					ans[k], errs[k] = s.do(h[k], "", 0, 0)
				}(k)
			}
			close(start)
			wg.Wait()
		} else {
			for k := range h {
				ans[k], errs[k] = s.do(h[k], "", 0, 0)
			}
		}
		s.close()
		res.Runs++
		for k := range h {
			if errs[k] != nil {
				res.Err = fmt.Sprintf("history %d position %d: %v", hi, k, errs[k])
				return
			}
			res.Requests++
			if want := res.Alone[h[k]]; ans[k] != want {
				where := "seq"
				if burst {
					where = "burst"
				}
				res.diff(C07Diff{Where: where, Req: h[k], Got: ans[k], Want: want, Hist: h, Pos: k})
			}
		}
	}
}

func init() {
	RegisterCmd("c07", func(p *Probe, line []byte) any {
		var c C07Cmd
		res := &C07Res{Diffs: []C07Diff{}, Disagree: []int{}, Alone: []C07Ans{}}
		if err := json.Unmarshal(line, &c); err != nil {
			res.Err = "decode: " + err.Error()
			return res
		}
		res.ID = c.ID
		if len(c.Reqs) == 0 {
			res.Err = "no requests"
			return res
		}
		procs := c.Procs
		if procs < 1 {
			procs = 1
		}
		// the oracle: every request alone on a fresh server, one at a time
		old := runtime.GOMAXPROCS(1)
		defer runtime.GOMAXPROCS(old)
		if !p.c07Alone(&c, res) {
			return res
		}
		runtime.GOMAXPROCS(procs)
		switch c.Mode {
		case "alone":
		case "gated":
			p.c07Gated(&c, res)
		case "free":
			p.c07Free(&c, res)
		case "seq":
			p.c07Hists(&c, res, false)
		case "burst":
			p.c07Hists(&c, res, true)
		default:
			res.Err = "unknown mode " + c.Mode
		}
		return res
	})
}
