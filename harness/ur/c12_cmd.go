package ur

// C12 (streamed HTTP responses are well-framed): probe protocol command "c12".
// One command serves ONE operation of the generated server through the REAL
// handler.Server + transport.MultipartMixed / transport.SSE behind a real
// net/http server (httptest) and returns the RAW bytes a client reads from the
// TCP connection (response head, chunked coding and all), so that the driver's
// own strict tokenisers see exactly what is on the wire. Resolvers are driven
// by the plan and gated by the in-probe scheduler (Sched/Order), which is how
// several deferred groups are made to complete within one aggregator flush
// interval, or each alone in its own. The order in which the executor yields
// the payloads is recorded by a response middleware (user code).

import (
	"context"
	"encoding/base64"
	"encoding/json"
	"fmt"
	"io"
	"net"
	"net/http"
	"net/http/httptest"
	"sync"
	"time"

	"github.com/99designs/gqlgen/graphql"
	"github.com/99designs/gqlgen/graphql/handler"
	"github.com/99designs/gqlgen/graphql/handler/transport"
)

type C12Cmd struct {
	Cmd         string             `json:"cmd"`
	ID          string             `json:"id"`
	Query       string             `json:"query"`
	Vars        map[string]any     `json:"vars"`
	Plan        map[string]Outcome `json:"plan"`
	Sched       string             `json:"sched"`
	Order       []string           `json:"order"`
	QuietUs     int                `json:"quiet_us"`
	Transport   string             `json:"transport"` // mixed | sse
	DeliveryNs  int64              `json:"delivery_ns"`
	KeepAliveNs int64              `json:"keepalive_ns"`
	Boundary    string             `json:"boundary"`
	TimeoutMs   int                `json:"timeout_ms"`
}

type C12Res struct {
	ID        string   `json:"id"`
	Wire      string   `json:"wire"`     // base64 of everything read from the connection
	Produced  []string `json:"produced"` // "init" | "<label>@<path>" in the order the executor yielded the payloads
	Notes     []string `json:"notes"`
	Err       string   `json:"err,omitempty"`
	ReadErr   string   `json:"read_err,omitempty"`
	Hung      bool     `json:"hung,omitempty"` // the handler did not return
	Leaked    int      `json:"leaked"`
	LeakStack string   `json:"leak_stack,omitempty"`
	ElapsedUs int64    `json:"elapsed_us"`
}

func init() {
	RegisterCmd("c12", func(p *Probe, line []byte) any {
		var c C12Cmd
		if err := json.Unmarshal(line, &c); err != nil {
			return C12Res{Err: "decode: " + err.Error(), Produced: []string{}, Notes: []string{}}
		}
		return c12Serve(p, &c)
	})
}

func c12Serve(p *Probe, c *C12Cmd) C12Res {
	res := C12Res{ID: c.ID, Produced: []string{}, Notes: []string{}}
	t0 := time.Now()
	run := NewRun()
	if c.Plan != nil {
		run.Plan = c.Plan
	}
	run.Sched, run.Order = c.Sched, c.Order
	if c.QuietUs > 0 {
		run.Quiet = time.Duration(c.QuietUs) * time.Microsecond
	}
	timeout := 20 * time.Second
	if c.TimeoutMs > 0 {
		timeout = time.Duration(c.TimeoutMs) * time.Millisecond
	}
	srv := handler.New(p.ES)
	srv.AddTransport(transport.SSE{KeepAlivePingInterval: time.Duration(c.KeepAliveNs)})
	srv.AddTransport(transport.MultipartMixed{Boundary: c.Boundary, DeliveryTimeout: time.Duration(c.DeliveryNs)})
	srv.SetRecoverFunc(RecoverFunc)
	srv.SetErrorPresenter(ErrorPresenter)
	var mu sync.Mutex
	srv.AroundResponses(func(ctx context.Context, next graphql.ResponseHandler) *graphql.Response {
		r := next(ctx)
		if r != nil {
			k := "init"
			if r.Path != nil || r.Label != "" {
				k = r.Label + "@" + PathKey(r.Path)
			}
			mu.Lock()
			res.Produced = append(res.Produced, k)
			mu.Unlock()
		}
		return r
	})
	run.StartScheduler()
	defer run.Finish()
	ts := httptest.NewServer(http.HandlerFunc(func(w http.ResponseWriter, r *http.Request) {
		srv.ServeHTTP(w, r.WithContext(WithRun(r.Context(), run)))
	}))
	body, _ := json.Marshal(map[string]any{"query": c.Query, "variables": c.Vars})
	accept := "multipart/mixed"
	if c.Transport == "sse" {
		accept = "text/event-stream"
	}
	conn, err := net.DialTimeout("tcp", ts.Listener.Addr().String(), 5*time.Second)
	if err != nil {
		res.Err = "dial: " + err.Error()
	} else {
		fmt.Fprintf(conn, "POST / HTTP/1.1\r\nHost: c12\r\nConnection: close\r\nAccept: %s\r\nContent-Type: application/json\r\nContent-Length: %d\r\n\r\n%s", accept, len(body), body)
		_ = conn.SetReadDeadline(time.Now().Add(timeout))
		raw, rerr := io.ReadAll(conn)
		if rerr != nil {
			res.ReadErr = rerr.Error()
		}
		conn.Close()
		res.Wire = base64.StdEncoding.EncodeToString(raw)
	}
	run.Finish()
	// the handler must return: Close waits for outstanding requests
	closed := make(chan struct{})
	go func() { ts.CloseClientConnections(); ts.Close(); close(closed) }()
	select {
	case <-closed:
	case <-time.After(timeout):
		res.Hung = true
		res.LeakStack = p.gqlgenStacks(4000)
	}
	if !res.Hung {
		wait, total := 200*time.Microsecond, time.Duration(0)
		for {
			n := p.countGqlgenGoroutines()
			if n == 0 || total > 15*time.Second {
				res.Leaked = n
				if n > 0 {
					res.LeakStack = p.gqlgenStacks(3000)
				}
				break
			}
			time.Sleep(wait)
			total += wait
			if wait < 50*time.Millisecond {
				wait *= 2
			}
		}
	}
	mu.Lock()
	res.Produced = append([]string{}, res.Produced...)
	mu.Unlock()
	run.mu.Lock()
	res.Notes = append(res.Notes, run.Notes...)
	run.mu.Unlock()
	res.ElapsedUs = time.Since(t0).Microseconds()
	return res
}
