// Package ur is the "universal resolver": it fills every function-valued field
// of a stubgen Stub (and of DirectiveRoot) by reflection with a plan-driven,
// traced and optionally gated implementation. It is the user code of every
// generated probe server, so all observation points that are user code
// (resolvers, directives, error presenter, recover func) need no source hook.
package ur

import (
	"context"
	"errors"
	"fmt"
	"reflect"
	"sort"
	"strconv"
	"strings"
	"sync"
	"time"

	"github.com/vektah/gqlparser/v2/ast"
	"github.com/vektah/gqlparser/v2/gqlerror"

	"github.com/99designs/gqlgen/graphql"
)

// Outcome is what a plan prescribes for one position (value path).
type Outcome struct {
	K  string `json:"k"`  // val | null | err | valerr | panic | list | obj | stream
	N  int    `json:"n"`  // list length / number of stream events
	Ty string `json:"ty"` // concrete type for abstract positions
	V  string `json:"v"`  // leaf value (string form)
}

// ErrSentinel is the shared error value of Outcome{K: "err", V: "sentinel"}.
var ErrSentinel = gqlerror.Errorf("E:sentinel")

// Event is one line of the trace of a run.
type Event struct {
	E string `json:"e"`           // Start | End | Dir | DirEnd | Err | Recover | Cancel | ...
	P string `json:"p"`           // response path key
	T string `json:"tag"`         // directive tag / error class / free detail
	A string `json:"args"`        // canonical JSON of received args (Start only)
	G int64  `json:"g,omitempty"` // goroutine-ish id (unused in specs)
	// CF: what graphql.CollectAllFields(ctx) answered inside the resolver (Start of a
	// resolver whose field has a sub-selection): the API resolvers use to preload
	CF []string `json:"cf,omitempty"`
}

// Run is the per-request state: plan in, events out.
type Run struct {
	Plan    map[string]Outcome
	DirPlan map[string]string // path@tag -> pass | err | null | panic | posterr
	// Sched: "" no gating; "lifo" | "fifo" | "rand:<seed>" | "order" (uses Order)
	Sched string
	Order []string
	// Quiet is the stable-park window of the in-probe scheduler.
	Quiet time.Duration
	// CancelAt: cancel the run's context when the n-th Start/End event (1-based,
	// counted over "Start"+"End") has been logged; 0 = never.
	CancelAt int
	Cancel   context.CancelFunc
	// SlowMs: every resolver sleeps this long (ctx-aware) when Sched == "".
	mu      sync.Mutex
	events  []Event
	parked  map[string]chan struct{}
	arrival []string
	lastArr time.Time
	done    chan struct{}
	seCount int
	Notes   []string
	// RespMarks: the response interceptor logs a "Resp" marker for every response the
	// executor hands to the transport (transport modes; the executor-direct loop logs its own)
	RespMarks bool
}

type runKey struct{}

func WithRun(ctx context.Context, r *Run) context.Context {
	return context.WithValue(ctx, runKey{}, r)
}

func RunFrom(ctx context.Context) *Run {
	r, _ := ctx.Value(runKey{}).(*Run)
	return r
}

func NewRun() *Run {
	return &Run{Plan: map[string]Outcome{}, DirPlan: map[string]string{}, parked: map[string]chan struct{}{}, done: make(chan struct{}), Quiet: 2 * time.Millisecond}
}

func (r *Run) Log(ev Event) {
	r.mu.Lock()
	r.events = append(r.events, ev)
	fire := false
	if ev.E == "Start" || ev.E == "End" {
		r.seCount++
		if r.CancelAt > 0 && r.seCount == r.CancelAt {
			fire = true
		}
	}
	if fire {
		r.events = append(r.events, Event{E: "Cancel"})
	}
	r.mu.Unlock()
	if fire && r.Cancel != nil {
		r.Cancel()
	}
}

func (r *Run) Events() []Event {
	r.mu.Lock()
	defer r.mu.Unlock()
	out := make([]Event, len(r.events))
	copy(out, r.events)
	return out
}

// park blocks the caller at gate `key` until the scheduler releases it (or ctx ends).
func (r *Run) park(ctx context.Context, key string) {
	if r.Sched == "" || r.Sched == "free" {
		return
	}
	ch := make(chan struct{})
	r.mu.Lock()
	r.parked[key] = ch
	r.arrival = append(r.arrival, key)
	r.lastArr = time.Now()
	r.mu.Unlock()
	select {
	case <-ch:
	case <-ctx.Done():
		r.mu.Lock()
		delete(r.parked, key)
		r.mu.Unlock()
	case <-r.done:
	}
}

// Parked reports the keys currently parked, in arrival order.
func (r *Run) Parked() []string {
	r.mu.Lock()
	defer r.mu.Unlock()
	var out []string
	for _, k := range r.arrival {
		if _, ok := r.parked[k]; ok {
			out = append(out, k)
		}
	}
	return out
}

func (r *Run) Release(key string) bool {
	r.mu.Lock()
	ch, ok := r.parked[key]
	if ok {
		delete(r.parked, key)
	}
	r.mu.Unlock()
	if ok {
		close(ch)
	}
	return ok
}

// WaitParked waits until key is parked.
func (r *Run) WaitParked(key string, d time.Duration) bool {
	deadline := time.Now().Add(d)
	for {
		r.mu.Lock()
		_, ok := r.parked[key]
		r.mu.Unlock()
		if ok {
			return true
		}
		if time.Now().After(deadline) {
			return false
		}
		time.Sleep(50 * time.Microsecond)
	}
}

// StartScheduler runs the in-probe scheduling policy until Finish is called.
func (r *Run) StartScheduler() {
	if r.Sched == "" || r.Sched == "free" {
		return
	}
	go func() {
		var rnd *lcg
		if strings.HasPrefix(r.Sched, "rand:") {
			s, _ := strconv.ParseInt(strings.TrimPrefix(r.Sched, "rand:"), 10, 64)
			rnd = &lcg{uint64(s)*2862933555777941757 + 3037000493}
		}
		oi := 0
		cancelledByScript := false
		for {
			select {
			case <-r.done:
				return
			default:
			}
			if r.Sched == "order" && oi < len(r.Order) {
				// script tokens: "<key>" wait until parked, then release;
				// "?<key>" only wait until parked; "!cancel" cancel the context; "~<ms>" pause.
				k := r.Order[oi]
				oi++
				wait := 300 * time.Millisecond
				if cancelledByScript {
					wait = 2 * time.Millisecond // parked resolvers return by themselves once cancelled
				}
				switch {
				case k == "!cancel":
					cancelledByScript = true
					r.Log(Event{E: "Cancel"})
					if r.Cancel != nil {
						r.Cancel()
					}
				case strings.HasPrefix(k, "~"):
					ms, _ := strconv.Atoi(k[1:])
					time.Sleep(time.Duration(ms) * time.Millisecond)
				case strings.HasPrefix(k, "?"):
					if !r.WaitParked(k[1:], wait) && !cancelledByScript {
						r.mu.Lock()
						r.Notes = append(r.Notes, "order: not reached: "+k[1:])
						r.mu.Unlock()
					}
				default:
					if r.WaitParked(k, wait) {
						r.Release(k)
					} else if !cancelledByScript {
						r.mu.Lock()
						r.Notes = append(r.Notes, "order: not parked: "+k)
						r.mu.Unlock()
					}
				}
				continue
			}
			r.mu.Lock()
			n := len(r.parked)
			stable := time.Since(r.lastArr) >= r.Quiet
			r.mu.Unlock()
			if n == 0 || !stable {
				time.Sleep(100 * time.Microsecond)
				continue
			}
			p := r.Parked()
			if len(p) == 0 {
				continue
			}
			var k string
			switch {
			case r.Sched == "lifo":
				k = p[len(p)-1]
			case rnd != nil:
				k = p[int(rnd.next()%uint64(len(p)))]
			default: // fifo, and order after exhaustion
				k = p[0]
			}
			r.Release(k)
		}
	}()
}

func (r *Run) Finish() {
	select {
	case <-r.done:
	default:
		close(r.done)
	}
}

type lcg struct{ s uint64 }

func (l *lcg) next() uint64 {
	l.s = l.s*6364136223846793005 + 1442695040888963407
	return l.s >> 33
}

// PathKey renders an ast.Path as "a.0.b".
func PathKey(p ast.Path) string {
	var sb strings.Builder
	for i, e := range p {
		if i > 0 {
			sb.WriteByte('.')
		}
		switch e := e.(type) {
		case ast.PathName:
			sb.WriteString(string(e))
		case ast.PathIndex:
			sb.WriteString(strconv.Itoa(int(e)))
		}
	}
	return sb.String()
}

// ---------------------------------------------------------------------------

// Universe knows the Go model types of a probe and the schema.
type Universe struct {
	Schema *ast.Schema
	Types  map[string]reflect.Type // GraphQL object name -> Go struct type
	// Res[type.field] = true when the field is resolver-backed (from the Stub).
	Res map[string]bool
}

func NewUniverse(schema *ast.Schema, models ...any) *Universe {
	u := &Universe{Schema: schema, Types: map[string]reflect.Type{}, Res: map[string]bool{}}
	for _, m := range models {
		t := reflect.TypeOf(m)
		u.Types[t.Name()] = t
	}
	return u
}

func normName(s string) string {
	return strings.ToLower(strings.ReplaceAll(s, "_", ""))
}

// FillStub installs the universal resolver in every func field of stub
// (a pointer to a stubgen struct).
func (u *Universe) FillStub(stub any) {
	sv := reflect.ValueOf(stub).Elem()
	st := sv.Type()
	for i := 0; i < st.NumField(); i++ {
		grp := st.Field(i)
		if grp.Type.Kind() != reflect.Struct || !strings.HasSuffix(grp.Name, "Resolver") {
			continue
		}
		tn := strings.TrimSuffix(grp.Name, "Resolver")
		gqlType := u.gqlTypeByGoName(tn)
		gv := sv.Field(i)
		for j := 0; j < grp.Type.NumField(); j++ {
			f := grp.Type.Field(j)
			if f.Type.Kind() != reflect.Func {
				continue
			}
			fname := u.gqlFieldByGoName(gqlType, f.Name)
			u.Res[gqlType+"."+fname] = true
			gv.Field(j).Set(reflect.MakeFunc(f.Type, u.resolver(gqlType, fname, f.Type)))
		}
	}
}

func (u *Universe) gqlTypeByGoName(goName string) string {
	for n := range u.Schema.Types {
		if normName(n) == normName(goName) {
			return n
		}
	}
	return goName
}

func (u *Universe) gqlFieldByGoName(typ, goName string) string {
	def := u.Schema.Types[typ]
	if def != nil {
		for _, f := range def.Fields {
			if normName(f.Name) == normName(goName) {
				return f.Name
			}
		}
	}
	return goName
}

var errType = reflect.TypeOf((*error)(nil)).Elem()
var ctxType = reflect.TypeOf((*context.Context)(nil)).Elem()

func (u *Universe) resolver(typ, field string, ft reflect.Type) func([]reflect.Value) []reflect.Value {
	return func(in []reflect.Value) []reflect.Value {
		ctx := in[0].Interface().(context.Context)
		run := RunFrom(ctx)
		fc := graphql.GetFieldContext(ctx)
		path := PathKey(fc.Path())
		rt := ft.Out(0)
		if run == nil {
			return []reflect.Value{reflect.Zero(rt), reflect.ValueOf(errors.New("ur: no run in context")).Convert(errType)}
		}
		args := ""
		for i := 1; i < len(in); i++ {
			if i == 1 && in[i].Type().Kind() == reflect.Ptr && u.isModelPtr(in[i].Type()) && !u.isRoot(fc.Object) {
				continue // obj
			}
			if args != "" {
				args += ","
			}
			args += Canon(in[i])
		}
		var cf []string
		if len(fc.Field.Selections) > 0 {
			cf = graphql.CollectAllFields(ctx)
			sort.Strings(cf)
		}
		run.Log(Event{E: "Start", P: path, A: args, CF: cf})
		run.park(ctx, path)
		out, ok := run.Plan[path]
		if !ok {
			out = Outcome{K: "dflt"}
		}
		var ret reflect.Value
		var err error
		switch out.K {
		case "err":
			ret = reflect.Zero(rt)
			if out.V == "sentinel" {
				// one package-level *gqlerror.Error value returned from every such position,
				// as resolvers do with `var ErrNotFound = gqlerror.Errorf(...)`
				err = ErrSentinel
			} else {
				err = errors.New("E:" + path)
			}
		case "panic":
			run.Log(Event{E: "End", P: path, T: "panic"})
			panic("P:" + path)
		case "valerr":
			o2 := out
			o2.K = "dflt"
			ret = u.build(run, rt, path, &o2)
			err = errors.New("E:" + path)
		case "ctxerr":
			// behave like a well-behaved resolver that honours cancellation
			<-ctx.Done()
			ret = reflect.Zero(rt)
			err = ctx.Err()
		default:
			if rt.Kind() == reflect.Chan {
				ret = u.stream(ctx, run, rt, path, out)
			} else {
				ret = u.build(run, rt, path, &out)
			}
		}
		run.Log(Event{E: "End", P: path, T: out.K, A: typeDesc(rt)})
		ev := reflect.Zero(errType)
		if err != nil {
			ev = reflect.ValueOf(err).Convert(errType)
		}
		return []reflect.Value{ret, ev}
	}
}

func (u *Universe) isRoot(name string) bool {
	for _, d := range []*ast.Definition{u.Schema.Query, u.Schema.Mutation, u.Schema.Subscription} {
		if d != nil && d.Name == name {
			return true
		}
	}
	return false
}

func (u *Universe) isModelPtr(t reflect.Type) bool {
	if t.Kind() != reflect.Ptr {
		return false
	}
	_, ok := u.Types[t.Elem().Name()]
	return ok && t.Elem().Kind() == reflect.Struct
}

// typeDesc renders a Go return type as kinds+":"+base, e.g. "SP:A" for []*A,
// "I:Node" for an interface, "P:string" for *string, "C..." for channels.
func typeDesc(t reflect.Type) string {
	k := ""
	for {
		switch t.Kind() {
		case reflect.Slice:
			k += "S"
			t = t.Elem()
			continue
		case reflect.Ptr:
			k += "P"
			t = t.Elem()
			continue
		case reflect.Chan:
			k += "C"
			t = t.Elem()
			continue
		case reflect.Interface:
			k += "I"
		}
		break
	}
	return k + ":" + t.Name()
}

// stream implements a subscription source: N events then close (K=stream),
// or "streamerr"/"streampanic" variants handled by plan entries path~i.
func (u *Universe) stream(ctx context.Context, run *Run, rt reflect.Type, path string, out Outcome) reflect.Value {
	n := out.N
	if out.K == "dflt" {
		n = 2
	}
	ch := reflect.MakeChan(reflect.ChanOf(reflect.BothDir, rt.Elem()), 0)
	go func() {
		defer ch.Close()
		for i := 0; i < n; i++ {
			vp := path + "~" + strconv.Itoa(i)
			run.Log(Event{E: "SrcEmit", P: vp})
			run.park(ctx, vp)
			o, ok := run.Plan[vp]
			if !ok {
				o = Outcome{K: "dflt"}
			}
			v := u.build(run, rt.Elem(), vp, &o)
			chosen, _, _ := reflect.Select([]reflect.SelectCase{
				{Dir: reflect.SelectSend, Chan: ch, Send: v},
				{Dir: reflect.SelectRecv, Chan: reflect.ValueOf(ctx.Done())},
			})
			if chosen == 1 {
				run.Log(Event{E: "SrcCancelled", P: path})
				return
			}
		}
		run.Log(Event{E: "SrcEnd", P: path})
	}()
	return ch.Convert(rt)
}

// build constructs a Go value of type t for value path vp according to the plan.
func (u *Universe) build(run *Run, t reflect.Type, vp string, o *Outcome) reflect.Value {
	if o == nil {
		if po, ok := run.Plan[vp]; ok {
			o = &po
		} else {
			o = &Outcome{K: "dflt"}
		}
	}
	if o.K == "null" {
		switch t.Kind() {
		case reflect.Ptr, reflect.Slice, reflect.Interface, reflect.Map:
		default:
			run.mu.Lock()
			run.Notes = append(run.Notes, "inapplicable: null for non-nilable "+t.String()+" at "+vp)
			run.mu.Unlock()
		}
	}
	switch t.Kind() {
	case reflect.Ptr:
		if o.K == "null" {
			return reflect.Zero(t)
		}
		v := reflect.New(t.Elem())
		v.Elem().Set(u.build(run, t.Elem(), vp, o))
		return v
	case reflect.Slice:
		if o.K == "null" {
			return reflect.Zero(t)
		}
		n := o.N
		if o.K != "list" {
			n = 2
		}
		s := reflect.MakeSlice(t, n, n)
		for i := 0; i < n; i++ {
			s.Index(i).Set(u.build(run, t.Elem(), vp+"."+strconv.Itoa(i), nil))
		}
		return s
	case reflect.Interface:
		if o.K == "null" {
			return reflect.Zero(t)
		}
		ty := o.Ty
		if ty == "" {
			ty = u.defaultImpl(t.Name())
		}
		ct, ok := u.Types[ty]
		if !ok {
			return reflect.Zero(t)
		}
		o2 := *o
		o2.K = "obj"
		pv := reflect.New(ct)
		pv.Elem().Set(u.build(run, ct, vp, &o2))
		if pv.Type().Implements(t) && !ct.Implements(t) {
			return pv.Convert(t)
		}
		// gqlgen binds implementors by value or pointer; prefer pointer
		// when both implement (modelgen uses value receivers) - the
		// generated type switch handles both.
		return pv.Convert(t)
	case reflect.Struct:
		v := reflect.New(t).Elem()
		gqlType := u.gqlTypeByGoName(t.Name())
		for i := 0; i < t.NumField(); i++ {
			sf := t.Field(i)
			tag := strings.Split(sf.Tag.Get("json"), ",")[0]
			if tag == "" || !sf.IsExported() {
				continue
			}
			if u.Res[gqlType+"."+tag] {
				continue
			}
			v.Field(i).Set(u.build(run, sf.Type, vp+"."+tag, nil))
		}
		return v
	case reflect.String:
		s := o.V
		if o.K != "val" {
			if t.Name() != "string" && t.PkgPath() != "" && u.isEnum(t.Name()) {
				s = u.defaultEnum(t.Name())
			} else {
				s = vp
			}
		}
		return reflect.ValueOf(s).Convert(t)
	case reflect.Int, reflect.Int32, reflect.Int64:
		n := int64(7)
		if o.K == "val" {
			n, _ = strconv.ParseInt(o.V, 10, 64)
		}
		return reflect.ValueOf(n).Convert(t)
	case reflect.Bool:
		b := true
		if o.K == "val" {
			b = o.V == "true"
		}
		return reflect.ValueOf(b).Convert(t)
	case reflect.Float64:
		f := 1.5
		if o.K == "val" {
			f, _ = strconv.ParseFloat(o.V, 64)
		}
		return reflect.ValueOf(f).Convert(t)
	}
	return reflect.Zero(t)
}

func (u *Universe) defaultImpl(abstract string) string {
	def := u.Schema.Types[u.gqlTypeByGoName(abstract)]
	if def == nil {
		return ""
	}
	pts := u.Schema.GetPossibleTypes(def)
	names := make([]string, 0, len(pts))
	for _, p := range pts {
		if p.Kind == ast.Object {
			names = append(names, p.Name)
		}
	}
	sort.Strings(names)
	if len(names) == 0 {
		return ""
	}
	return names[0]
}

func (u *Universe) isEnum(goName string) bool {
	def := u.Schema.Types[u.gqlTypeByGoName(goName)]
	return def != nil && def.Kind == ast.Enum
}

func (u *Universe) defaultEnum(goName string) string {
	def := u.Schema.Types[u.gqlTypeByGoName(goName)]
	if def == nil || len(def.EnumValues) == 0 {
		return ""
	}
	return def.EnumValues[0].Name
}

// FillDirectives installs plan-driven directive implementations in every func
// field of a DirectiveRoot (pointer to struct).
func (u *Universe) FillDirectives(root any) {
	rv := reflect.ValueOf(root).Elem()
	rt := rv.Type()
	for i := 0; i < rt.NumField(); i++ {
		f := rt.Field(i)
		if f.Type.Kind() != reflect.Func {
			continue
		}
		name := f.Name
		rv.Field(i).Set(reflect.MakeFunc(f.Type, func(in []reflect.Value) []reflect.Value {
			ctx := in[0].Interface().(context.Context)
			next := in[2].Interface().(graphql.Resolver)
			tag := ""
			if len(in) > 3 && in[3].Kind() == reflect.Ptr && !in[3].IsNil() && in[3].Elem().Kind() == reflect.String {
				tag = in[3].Elem().String()
			}
			run := RunFrom(ctx)
			path := PathKey(graphql.GetPath(ctx))
			key := path + "@" + tag
			how := "pass"
			if run != nil {
				if h, ok := run.DirPlan[key]; ok {
					how = h
				}
				run.Log(Event{E: "Dir", P: path, T: tag, A: strings.ToLower(name)})
			}
			var res any
			var err error
			switch how {
			case "err":
				err = errors.New("D:" + key)
			case "null":
			case "panic":
				panic("P:" + key)
			case "posterr":
				_, _ = next(ctx)
				err = errors.New("D:" + key)
			default:
				res, err = next(ctx)
			}
			if run != nil {
				run.Log(Event{E: "DirEnd", P: path, T: tag, A: how})
			}
			out := []reflect.Value{reflect.Zero(f.Type.Out(0)), reflect.Zero(errType)}
			if res != nil {
				out[0] = reflect.ValueOf(&res).Elem()
			}
			if err != nil {
				out[1] = reflect.ValueOf(err).Convert(errType)
			}
			return out
		}))
	}
}

// RecoverFunc logs and converts a recovered panic.
func RecoverFunc(ctx context.Context, p any) error {
	if run := RunFrom(ctx); run != nil {
		run.Log(Event{E: "Recover", P: PathKey(graphql.GetPath(ctx)), T: fmt.Sprint(p)})
	}
	return fmt.Errorf("%v", p)
}

// ErrorPresenter logs every error added to a response.
func ErrorPresenter(ctx context.Context, err error) *gqlerror.Error {
	ge := graphql.DefaultErrorPresenter(ctx, err)
	if run := RunFrom(ctx); run != nil {
		p := ""
		if ge != nil {
			p = PathKey(ge.Path)
		}
		msg := ""
		if ge != nil {
			msg = ge.Message
		}
		run.Log(Event{E: "Err", P: p, T: ErrClass(msg)})
	}
	return ge
}

// ErrClass maps an error message to the abstract class used by the specs.
func ErrClass(msg string) string {
	switch {
	case strings.HasPrefix(msg, "E:"):
		return "err"
	case strings.HasPrefix(msg, "P:"), strings.HasPrefix(msg, "unexpected type "):
		// (the generated type switch panics with "unexpected type %T" for a value that is
		// no type of the schema; recovered like a resolver panic)
		return "panic"
	case strings.HasPrefix(msg, "D:"):
		return "dir"
	case strings.HasPrefix(msg, "I:"):
		return "int"
	case msg == "must not be null", strings.Contains(msg, "the requested element is null which the schema does not allow"):
		return "nonnull"
	case strings.Contains(msg, "context canceled"), strings.Contains(msg, "context deadline"):
		return "ctx"
	}
	return "other:" + msg
}
