package scalars

// C02Kind (check C02): a custom scalar whose unmarshaler reports WHICH Go
// carrier it was handed, as "<Go type>:<value>" - e.g. "float64:5",
// "int64:1", "json.Number:1.5". A GraphQL Float written in a document reaches a
// custom scalar as float64 (gqlparser ast.Value.Value); a Float DEFAULT that the
// generator renders into Go source must reach it as the same carrier, so a
// rendering of 5.0 as the untyped constant `5` (an int in an `any` context) is
// visible here although every numeric comparison would call it equal.

import (
	"fmt"
	"io"
	"strconv"

	"github.com/99designs/gqlgen/graphql"
)

type C02Kind string

func MarshalC02Kind(k C02Kind) graphql.Marshaler {
	return graphql.WriterFunc(func(w io.Writer) { _, _ = io.WriteString(w, strconv.Quote(string(k))) })
}

func UnmarshalC02Kind(v any) (C02Kind, error) {
	return C02Kind(fmt.Sprintf("%T:%v", v, v)), nil
}
