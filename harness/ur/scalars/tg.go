package scalars

// Tg is a hand-written model bound to the probe schema's type Tg: the elements of its
// scalar lists are pointers, so a resolver (or a struct-bound parent) can hand the executor
// a nil element in a position the schema declares non-null.
type Tg struct {
	Tags   []*string `json:"tags"`
	Tagsnn []*string `json:"tagsnn"`
	Nums   []*int    `json:"nums"`
	Tagsn  []*string `json:"tagsn"`
}
