// Package scalars holds hand-written custom scalars bound by the probe
// projects. Boom is user code that can fail on command: the value "panic"
// panics while being (un)marshalled, "err" fails to unmarshal.
package scalars

import (
	"errors"
	"fmt"
	"io"
	"strconv"

	"github.com/99designs/gqlgen/graphql"
)

type Boom string

func MarshalBoom(b Boom) graphql.Marshaler {
	return graphql.WriterFunc(func(w io.Writer) {
		if b == "panic" {
			panic("P:marshal")
		}
		_, _ = io.WriteString(w, strconv.Quote(string(b)))
	})
}

func UnmarshalBoom(v any) (Boom, error) {
	s, ok := v.(string)
	if !ok {
		return "", fmt.Errorf("E:boom must be a string")
	}
	switch s {
	case "panic":
		panic("P:unmarshal")
	case "err":
		return "", errors.New("E:unmarshal")
	}
	return Boom(s), nil
}
