package ur

import (
	"bytes"
	"encoding/json"
	"fmt"
	"reflect"
	"sort"
	"strconv"
	"strings"
)

// Canon renders a Go argument value in a canonical textual form that keeps
// absent / null / set apart (nil pointers, Omittable, map-backed inputs).
func Canon(v reflect.Value) string {
	var sb strings.Builder
	canon(&sb, v)
	return sb.String()
}

func canon(sb *strings.Builder, v reflect.Value) {
	if !v.IsValid() {
		sb.WriteString("null")
		return
	}
	t := v.Type()
	// graphql.Omittable[T]: has methods IsSet / Value
	if t.Kind() == reflect.Struct && strings.HasPrefix(t.Name(), "Omittable[") {
		isSet := v.Addr().MethodByName("IsSet")
		if !isSet.IsValid() {
			isSet = v.MethodByName("IsSet")
		}
		if !isSet.Call(nil)[0].Bool() {
			sb.WriteString("<unset>")
			return
		}
		sb.WriteString("set:")
		canon(sb, v.MethodByName("Value").Call(nil)[0])
		return
	}
	switch t.Kind() {
	case reflect.Ptr, reflect.Interface:
		if v.IsNil() {
			sb.WriteString("null")
			return
		}
		canon(sb, v.Elem())
	case reflect.Slice:
		if v.IsNil() {
			sb.WriteString("null")
			return
		}
		sb.WriteByte('[')
		for i := 0; i < v.Len(); i++ {
			if i > 0 {
				sb.WriteByte(',')
			}
			canon(sb, v.Index(i))
		}
		sb.WriteByte(']')
	case reflect.Map:
		if v.IsNil() {
			sb.WriteString("null")
			return
		}
		keys := v.MapKeys()
		sort.Slice(keys, func(i, j int) bool { return fmt.Sprint(keys[i]) < fmt.Sprint(keys[j]) })
		sb.WriteByte('{')
		for i, k := range keys {
			if i > 0 {
				sb.WriteByte(',')
			}
			sb.WriteString(fmt.Sprint(k))
			sb.WriteByte(':')
			canon(sb, v.MapIndex(k))
		}
		sb.WriteByte('}')
	case reflect.Struct:
		sb.WriteByte('{')
		first := true
		for i := 0; i < t.NumField(); i++ {
			if !t.Field(i).IsExported() {
				continue
			}
			if !first {
				sb.WriteByte(',')
			}
			first = false
			name := strings.Split(t.Field(i).Tag.Get("json"), ",")[0]
			if name == "" {
				name = t.Field(i).Name
			}
			sb.WriteString(name)
			sb.WriteByte(':')
			canon(sb, v.Field(i))
		}
		sb.WriteByte('}')
	case reflect.String:
		sb.WriteString(strconv.Quote(v.String()))
	case reflect.Int, reflect.Int8, reflect.Int16, reflect.Int32, reflect.Int64:
		sb.WriteString(strconv.FormatInt(v.Int(), 10))
	case reflect.Uint, reflect.Uint8, reflect.Uint16, reflect.Uint32, reflect.Uint64:
		sb.WriteString(strconv.FormatUint(v.Uint(), 10))
	case reflect.Bool:
		sb.WriteString(strconv.FormatBool(v.Bool()))
	case reflect.Float32, reflect.Float64:
		sb.WriteString(strconv.FormatFloat(v.Float(), 'g', -1, 64))
	default:
		sb.WriteString(fmt.Sprintf("%v", v.Interface()))
	}
}

// Tagged is the tagged-tree projection of a JSON value used by the specs:
// {"t":"n"} | {"t":"s","v":"..."} (all scalars, string form; t = s|i|b|f)
// {"t":"o","f":[{"k":key,"v":Tagged}...]} | {"t":"l","e":[Tagged...]}
type Tagged map[string]any

// Tag decodes JSON bytes preserving object key order.
func Tag(b []byte) (Tagged, error) {
	dec := json.NewDecoder(bytes.NewReader(b))
	dec.UseNumber()
	t, err := tagValue(dec)
	if err != nil {
		return nil, err
	}
	if _, err := dec.Token(); err == nil {
		return nil, fmt.Errorf("trailing data")
	}
	return t, nil
}

func tagValue(dec *json.Decoder) (Tagged, error) {
	tok, err := dec.Token()
	if err != nil {
		return nil, err
	}
	switch tok := tok.(type) {
	case json.Delim:
		switch tok {
		case '{':
			fs := []any{}
			for dec.More() {
				kt, err := dec.Token()
				if err != nil {
					return nil, err
				}
				v, err := tagValue(dec)
				if err != nil {
					return nil, err
				}
				fs = append(fs, map[string]any{"k": kt.(string), "v": v})
			}
			if _, err := dec.Token(); err != nil {
				return nil, err
			}
			return Tagged{"t": "o", "f": fs}, nil
		case '[':
			es := []any{}
			for dec.More() {
				v, err := tagValue(dec)
				if err != nil {
					return nil, err
				}
				es = append(es, v)
			}
			if _, err := dec.Token(); err != nil {
				return nil, err
			}
			return Tagged{"t": "l", "e": es}, nil
		}
		return nil, fmt.Errorf("unexpected delim %v", tok)
	case nil:
		return Tagged{"t": "n"}, nil
	case string:
		return Tagged{"t": "s", "v": tok}, nil
	case json.Number:
		return Tagged{"t": "i", "v": tok.String()}, nil
	case bool:
		return Tagged{"t": "b", "v": strconv.FormatBool(tok)}, nil
	}
	return nil, fmt.Errorf("unexpected token %v", tok)
}
