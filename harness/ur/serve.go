package ur

import (
	"bufio"
	"context"
	"encoding/json"
	"errors"
	"flag"
	"fmt"
	"github.com/gorilla/websocket"
	"os"
	"runtime"
	"sort"
	"strings"
	"sync"
	"time"

	"github.com/vektah/gqlparser/v2/ast"
	"github.com/vektah/gqlparser/v2/gqlerror"

	"github.com/99designs/gqlgen/graphql"
	"github.com/99designs/gqlgen/graphql/executor"
	"github.com/99designs/gqlgen/graphql/handler"
	"github.com/99designs/gqlgen/graphql/handler/transport"
	"io"
	"mime"
	"net/http"
	"net/http/httptest"
	"net/url"
)

// Cmd is one line of the probe protocol (stdin, ndjson).
type Cmd struct {
	Cmd        string             `json:"cmd"` // schema | exec | quit
	ID         string             `json:"id"`
	Query      string             `json:"query"`
	OpName     string             `json:"opname"`
	Vars       map[string]any     `json:"vars"`
	Plan       map[string]Outcome `json:"plan"`
	DirPlan    map[string]string  `json:"dirplan"`
	Sched      string             `json:"sched"`
	Order      []string           `json:"order"`
	QuietUs    int                `json:"quiet_us"`
	CancelAt   int                `json:"cancel_at"`
	Mode       string             `json:"mode"` // "" drain all payloads | "one" take the first payload and leave
	LeakCheck  bool               `json:"leak_check"`
	TimeoutMs  int                `json:"timeout_ms"`
	LeakWaitMs int                `json:"leak_wait_ms"`
	Introspect bool               `json:"introspect"`
	ParseTP    bool               `json:"parse_tp,omitempty"` // tp:* modes: parse the wire payloads into Resps
}

type ErrP struct {
	P string `json:"p"`
	C string `json:"c"`
}

type Resp struct {
	Data    Tagged `json:"data"`
	Errs    []ErrP `json:"errs"`
	HasNext string `json:"hasnext"` // t | f | -
	Path    string `json:"path"`
	HasPath bool   `json:"haspath"`
	Label   string `json:"label"`
	Raw     string `json:"raw,omitempty"`
	Status  int    `json:"status"`
}

type Result struct {
	ID        string   `json:"id"`
	Events    []Event  `json:"events"`
	Resps     []Resp   `json:"resps"`
	GateErrs  []string `json:"gate_errs"`
	Hung      bool     `json:"hung"`
	Leaked    int      `json:"leaked"`
	LeakStack string   `json:"leak_stack,omitempty"`
	Notes     []string `json:"notes"`
	ElapsedUs int64    `json:"elapsed_us"`
	BadJSON   string   `json:"bad_json,omitempty"`
	Dirty     bool     `json:"dirty,omitempty"` // a panic escaped: goroutines of this operation may still be running
}

type Probe struct {
	U  *Universe
	ES graphql.ExecutableSchema
	// Marker is a substring of the generated package's import path, used to
	// recognise gqlgen-started goroutines in stack dumps.
	Marker string
}

var extraCmds = map[string]func(p *Probe, line []byte) any{}

// RegisterCmd adds a protocol command (files ur/cxx_*.go register theirs in init()).
// The handler receives the raw command line and returns the value to emit as one line.
func RegisterCmd(name string, h func(p *Probe, line []byte) any) { extraCmds[name] = h }

// Main is the entry point of every generated probe binary.
func Main(p *Probe) {
	par := flag.Int("par", 1, "scenarios in flight")
	flag.Parse()
	in := bufio.NewReaderSize(os.Stdin, 1<<20)
	out := bufio.NewWriterSize(os.Stdout, 1<<20)
	var omu sync.Mutex
	emit := func(v any) {
		b, _ := json.Marshal(v)
		omu.Lock()
		out.Write(b)
		out.WriteByte('\n')
		out.Flush()
		omu.Unlock()
	}
	sem := make(chan struct{}, *par)
	var wg sync.WaitGroup
	for {
		line, err := in.ReadBytes('\n')
		if len(line) > 1 {
			var c Cmd
			if jerr := json.Unmarshal(line, &c); jerr != nil {
				emit(map[string]any{"error": jerr.Error()})
			} else {
				switch c.Cmd {
				case "schema":
					emit(p.SchemaJSON())
				case "quit":
					wg.Wait()
					return
				default:
					if h, ok := extraCmds[c.Cmd]; ok {
						emit(h(p, line))
					} else {
						emit(map[string]any{"error": "unknown cmd " + c.Cmd})
					}
				case "exec":
					sem <- struct{}{}
					wg.Add(1)
					go func(c Cmd) {
						defer wg.Done()
						defer func() { <-sem }()
						r := p.Exec(&c)
						emit(r)
						if r.Hung || r.Dirty {
							// the process is dirty now; let the driver restart it
							os.Exit(7)
						}
					}(c)
					if *par == 1 {
						wg.Wait()
					}
				}
			}
		}
		if err != nil {
			break
		}
	}
	wg.Wait()
}

func (p *Probe) Exec(c *Cmd) *Result {
	res := &Result{ID: c.ID, Notes: []string{}, GateErrs: []string{}, Resps: []Resp{}}
	run := NewRun()
	if c.Plan != nil {
		run.Plan = c.Plan
	}
	if c.DirPlan != nil {
		run.DirPlan = c.DirPlan
	}
	run.Sched = c.Sched
	run.Order = c.Order
	run.CancelAt = c.CancelAt
	if c.QuietUs > 0 {
		run.Quiet = time.Duration(c.QuietUs) * time.Microsecond
	}
	timeout := 5 * time.Second
	if c.TimeoutMs > 0 {
		timeout = time.Duration(c.TimeoutMs) * time.Millisecond
	}
	ex := executor.New(p.ES)
	ex.SetRecoverFunc(RecoverFunc)
	ex.SetErrorPresenter(ErrorPresenter)
	if c.Introspect {
		ex.Use(introspectOn{})
	}
	ex.Use(faultExt{})
	base, cancel := context.WithCancel(WithRun(context.Background(), run))
	run.Cancel = cancel
	defer cancel()
	run.StartScheduler()
	t0 := time.Now()
	done := make(chan struct{})
	var resps []*graphql.Response
	var httpResps []Resp
	go func() {
		defer close(done)
		defer func() {
			if r := recover(); r != nil {
				res.Notes = append(res.Notes, fmt.Sprintf("escaped panic on caller: %v", r))
				res.Dirty = true
			}
		}()
		if c.Mode == "http" {
			httpResps = p.execHTTP(base, c, res)
			return
		}
		if strings.HasPrefix(c.Mode, "tp:") {
			p.execTransport(run, c, res)
			return
		}
		ctx := graphql.StartOperationTrace(base)
		opCtx, errs := ex.CreateOperationContext(ctx, &graphql.RawParams{Query: c.Query, OperationName: c.OpName, Variables: c.Vars})
		if errs != nil {
			for _, e := range errs {
				res.GateErrs = append(res.GateErrs, e.Message)
			}
			resps = append(resps, ex.DispatchError(graphql.WithOperationContext(ctx, opCtx), errs))
			return
		}
		rh, ctx2 := ex.DispatchOperation(ctx, opCtx)
		for {
			r := rh(ctx2)
			if r == nil {
				break
			}
			// project at once: a subscription's responses share one buffer (Data is only
			// valid until the next call of the response function)
			httpResps = append(httpResps, projectResp(r, res))
			run.Log(Event{E: "Resp", T: fmt.Sprint(len(httpResps) - 1)})
			if c.Mode == "one" {
				break
			}
		}
	}()
	select {
	case <-done:
	case <-time.After(timeout):
		res.Hung = true
		res.LeakStack = p.gqlgenStacks(4000)
	}
	res.ElapsedUs = time.Since(t0).Microseconds()
	if !res.Hung {
		for _, r := range resps {
			res.Resps = append(res.Resps, projectResp(r, res))
		}
		res.Resps = append(res.Resps, httpResps...)
	}
	cancel()
	run.Finish()
	if c.LeakCheck && !res.Hung {
		// poll with back-off: slow exits are not leaks
		wait := 200 * time.Microsecond
		total := time.Duration(0)
		leakWait := 1500 * time.Millisecond
		if c.LeakWaitMs > 0 {
			leakWait = time.Duration(c.LeakWaitMs) * time.Millisecond
		}
		for {
			n := p.countGqlgenGoroutines()
			if n == 0 || total > leakWait {
				res.Leaked = n
				if n > 0 {
					res.LeakStack = p.gqlgenStacks(3000)
					res.Dirty = true // leaked goroutines would be seen by the next scenario
				}
				break
			}
			time.Sleep(wait)
			total += wait
			if wait < 50*time.Millisecond {
				wait *= 2
			}
		}
	}
	res.Events = run.Events()
	run.mu.Lock()
	res.Notes = append(res.Notes, run.Notes...)
	run.mu.Unlock()
	return res
}

// faultExt is a field / root-field interceptor driven by the plan
// (DirPlan keys "<path>@#f" and "<path>@#r": err | panic; default pass).
type faultExt struct{}

func (faultExt) ExtensionName() string                   { return "VerifFaults" }
func (faultExt) Validate(graphql.ExecutableSchema) error { return nil }

func (faultExt) InterceptField(ctx context.Context, next graphql.Resolver) (any, error) {
	run := RunFrom(ctx)
	if run == nil || len(run.DirPlan) == 0 {
		return next(ctx)
	}
	path := PathKey(graphql.GetFieldContext(ctx).Path())
	how, ok := run.DirPlan[path+"@#f"]
	if !ok {
		return next(ctx)
	}
	run.Log(Event{E: "Int", P: path, T: "#f", A: how})
	switch how {
	case "err":
		return nil, errors.New("I:" + path)
	case "panic":
		panic("P:" + path + "@#f")
	}
	return next(ctx)
}

func (faultExt) InterceptResponse(ctx context.Context, next graphql.ResponseHandler) *graphql.Response {
	r := next(ctx)
	if run := RunFrom(ctx); run != nil && run.RespMarks && r != nil {
		run.Log(Event{E: "Resp"})
	}
	return r
}

func (faultExt) InterceptRootField(ctx context.Context, next graphql.RootResolver) graphql.Marshaler {
	run := RunFrom(ctx)
	if run == nil || len(run.DirPlan) == 0 {
		return next(ctx)
	}
	rc := graphql.GetRootFieldContext(ctx)
	path := ""
	if rc != nil {
		path = rc.Field.Alias
	}
	how, ok := run.DirPlan[path+"@#r"]
	if !ok {
		return next(ctx)
	}
	run.Log(Event{E: "Int", P: path, T: "#r", A: how})
	if how == "panic" {
		panic("P:" + path + "@#r")
	}
	return next(ctx)
}

type introspectOn struct{}

func (introspectOn) ExtensionName() string                   { return "VerifIntrospection" }
func (introspectOn) Validate(graphql.ExecutableSchema) error { return nil }
func (introspectOn) MutateOperationContext(ctx context.Context, rc *graphql.OperationContext) *gqlerror.Error {
	rc.DisableIntrospection = false
	return nil
}

func projectResp(r *graphql.Response, res *Result) Resp {
	out := Resp{Errs: []ErrP{}, HasNext: "-"}
	if len(r.Data) > 0 {
		t, err := Tag(r.Data)
		if err != nil {
			res.BadJSON = string(r.Data)
			t = Tagged{"t": "bad"}
		}
		out.Data = t
	} else {
		out.Data = Tagged{"t": "absent"}
	}
	for _, e := range r.Errors {
		out.Errs = append(out.Errs, ErrP{P: PathKey(e.Path), C: ErrClass(e.Message)})
	}
	if r.HasNext != nil {
		if *r.HasNext {
			out.HasNext = "t"
		} else {
			out.HasNext = "f"
		}
	}
	if r.Path != nil {
		out.Path = PathKey(r.Path)
		out.HasPath = true
	}
	out.Label = r.Label
	return out
}

func (p *Probe) gqlgenGoroutines() []string {
	buf := make([]byte, 1<<20)
	for {
		n := runtime.Stack(buf, true)
		if n < len(buf) {
			buf = buf[:n]
			break
		}
		buf = make([]byte, 2*len(buf))
	}
	var out []string
	for _, g := range strings.Split(string(buf), "\n\n") {
		if strings.Contains(g, "ur.(*Probe).gqlgenGoroutines") {
			continue // ourselves
		}
		if strings.Contains(g, "ur.Main") && !strings.Contains(g, p.Marker) {
			continue
		}
		if strings.Contains(g, p.Marker) || strings.Contains(g, "github.com/99designs/gqlgen/graphql") {
			out = append(out, g)
		}
	}
	return out
}

func (p *Probe) countGqlgenGoroutines() int { return len(p.gqlgenGoroutines()) }

func (p *Probe) gqlgenStacks(max int) string {
	s := strings.Join(p.gqlgenGoroutines(), "\n\n")
	if len(s) > max {
		s = s[:max]
	}
	return s
}

// SchemaJSON dumps the schema in the form the TLA+ modules read.
func (p *Probe) SchemaJSON() map[string]any {
	types := map[string]any{}
	names := []string{}
	for n := range p.ES.Schema().Types {
		names = append(names, n)
	}
	sort.Strings(names)
	for _, n := range names {
		def := p.ES.Schema().Types[n]
		if strings.HasPrefix(n, "__") {
			continue
		}
		fields := map[string]any{}
		for _, f := range def.Fields {
			if strings.HasPrefix(f.Name, "__") {
				continue
			}
			dirs := []any{}
			for _, d := range f.Directives {
				if d.Name == "goField" || d.Name == "deprecated" {
					continue
				}
				tag := ""
				if a := d.Arguments.ForName("tag"); a != nil {
					tag = a.Value.Raw
				}
				dirs = append(dirs, map[string]any{"name": d.Name, "tag": tag})
			}
			fields[f.Name] = map[string]any{
				"name": f.Type.Name(),
				"wrap": wrapOf(f.Type),
				"res":  p.U.Res[n+"."+f.Name],
				"dirs": dirs,
			}
		}
		poss := []string{}
		if def.Kind == ast.Interface || def.Kind == ast.Union {
			for _, pt := range p.ES.Schema().GetPossibleTypes(def) {
				if pt.Kind == ast.Object {
					poss = append(poss, pt.Name)
				}
			}
			sort.Strings(poss)
		}
		if def.Kind == ast.Object {
			poss = []string{n}
		}
		// implementors: the names a fragment type condition may use to match this object
		impl := []string{}
		if def.Kind == ast.Object {
			impl = append(impl, n)
			for _, i := range p.ES.Schema().GetImplements(def) {
				impl = append(impl, i.Name)
			}
			sort.Strings(impl)
		}
		dflt := ""
		switch {
		case def.Kind == ast.Enum && len(def.EnumValues) > 0:
			dflt = def.EnumValues[0].Name
		case n == "Int":
			dflt = "7"
		case n == "Boolean":
			dflt = "true"
		case n == "Float":
			dflt = "1.5"
		}
		types[n] = map[string]any{"kind": string(def.Kind), "fields": fields, "possible": poss, "impl": impl, "dflt": dflt}
	}
	roots := map[string]any{"query": "", "mutation": "", "subscription": ""}
	if q := p.ES.Schema().Query; q != nil {
		roots["query"] = q.Name
	}
	if q := p.ES.Schema().Mutation; q != nil {
		roots["mutation"] = q.Name
	}
	if q := p.ES.Schema().Subscription; q != nil {
		roots["subscription"] = q.Name
	}
	return map[string]any{"types": types, "roots": roots}
}

func wrapOf(t *ast.Type) []string {
	out := []string{}
	for t != nil {
		if t.NonNull {
			out = append(out, "N")
		}
		if t.Elem != nil {
			out = append(out, "L")
			t = t.Elem
		} else {
			break
		}
	}
	return out
}

// execHTTP runs the operation through handler.Server + the POST transport.
func (p *Probe) execHTTP(base context.Context, c *Cmd, res *Result) []Resp {
	srv := handler.New(p.ES)
	srv.AddTransport(transport.POST{})
	srv.SetRecoverFunc(RecoverFunc)
	srv.SetErrorPresenter(ErrorPresenter)
	srv.Use(faultExt{})
	body, _ := json.Marshal(map[string]any{"query": c.Query, "operationName": c.OpName, "variables": c.Vars})
	req := httptest.NewRequest("POST", "/query", strings.NewReader(string(body))).WithContext(base)
	req.Header.Set("Content-Type", "application/json")
	rec := httptest.NewRecorder()
	srv.ServeHTTP(rec, req)
	raw := rec.Body.Bytes()
	out := Resp{Errs: []ErrP{}, HasNext: "-", Status: rec.Code}
	var env struct {
		Data   json.RawMessage `json:"data"`
		Errors []struct {
			Message string   `json:"message"`
			Path    ast.Path `json:"path"`
		} `json:"errors"`
	}
	if err := json.Unmarshal(raw, &env); err != nil {
		res.BadJSON = string(raw)
		out.Data = Tagged{"t": "bad"}
		return []Resp{out}
	}
	if len(env.Data) > 0 {
		t, err := Tag(env.Data)
		if err != nil {
			res.BadJSON = string(raw)
			t = Tagged{"t": "bad"}
		}
		out.Data = t
	} else {
		out.Data = Tagged{"t": "absent"}
	}
	for _, e := range env.Errors {
		out.Errs = append(out.Errs, ErrP{P: PathKey(e.Path), C: ErrClass(e.Message)})
	}
	return []Resp{out}
}

// execTransport runs the operation over a real net/http server through one of the
// HTTP transports (tp:post | tp:get | tp:sse | tp:mixed). The run's cancel function
// aborts the CLIENT request (the server then sees its request context cancelled, as
// with a disconnecting client). Only termination / leaks are of interest here (C05).
func (p *Probe) execTransport(run *Run, c *Cmd, res *Result) {
	if strings.HasPrefix(c.Mode, "tp:ws") {
		p.execWS(run, c, res)
		return
	}
	srv := handler.New(p.ES)
	srv.AddTransport(transport.SSE{KeepAlivePingInterval: 3 * time.Millisecond})
	srv.AddTransport(transport.MultipartMixed{})
	srv.AddTransport(transport.GET{})
	srv.AddTransport(transport.POST{})
	srv.SetRecoverFunc(RecoverFunc)
	srv.SetErrorPresenter(ErrorPresenter)
	srv.Use(faultExt{})
	ts := httptest.NewServer(http.HandlerFunc(func(w http.ResponseWriter, r *http.Request) {
		srv.ServeHTTP(w, r.WithContext(WithRun(r.Context(), run)))
	}))
	cctx, ccancel := context.WithCancel(context.Background())
	run.mu.Lock()
	run.RespMarks = true
	run.Cancel = ccancel
	run.mu.Unlock()
	defer ccancel()
	body, _ := json.Marshal(map[string]any{"query": c.Query, "operationName": c.OpName, "variables": c.Vars})
	var req *http.Request
	switch c.Mode {
	case "tp:get":
		req, _ = http.NewRequestWithContext(cctx, "GET", ts.URL+"/?query="+url.QueryEscape(c.Query), nil)
	default:
		req, _ = http.NewRequestWithContext(cctx, "POST", ts.URL+"/", strings.NewReader(string(body)))
		req.Header.Set("Content-Type", "application/json")
		switch c.Mode {
		case "tp:sse":
			req.Header.Set("Accept", "text/event-stream")
		case "tp:mixed":
			req.Header.Set("Accept", "multipart/mixed")
		}
	}
	cl := &http.Client{Transport: &http.Transport{DisableKeepAlives: true}}
	resp, err := cl.Do(req)
	n := 0
	status := 0
	var wire []byte
	var ctype string
	if err == nil {
		status = resp.StatusCode
		b, _ := io.ReadAll(resp.Body)
		n = len(b)
		wire = b
		ctype = resp.Header.Get("Content-Type")
		resp.Body.Close()
	}
	ccancel()
	res.Notes = append(res.Notes, fmt.Sprintf("transport %s status=%d bytes=%d err=%v", c.Mode, status, n, err != nil))
	if c.ParseTP && err == nil && status == 200 {
		payloads, perr := ParseTransportBody(c.Mode, ctype, wire)
		for _, r := range payloads {
			pr := projectResp(r, res)
			pr.Status = status
			res.Resps = append(res.Resps, pr)
		}
		if perr != nil {
			res.Notes = append(res.Notes, "wire: "+perr.Error())
			if res.BadJSON == "" {
				res.BadJSON = "wire: " + perr.Error()
			}
		}
	} else {
		res.Resps = append(res.Resps, Resp{Errs: []ErrP{}, HasNext: "-", Status: status, Data: Tagged{"t": "absent"}})
	}
	// the handler must return: Close waits for outstanding requests
	closed := make(chan struct{})
	go func() { ts.CloseClientConnections(); ts.Close(); close(closed) }()
	to := 5 * time.Second
	if c.TimeoutMs > 0 {
		to = time.Duration(c.TimeoutMs) * time.Millisecond
	}
	select {
	case <-closed:
	case <-time.After(to):
		res.Hung = true
		res.LeakStack = p.gqlgenStacks(4000)
	}
}

// execWS runs the operation over the real websocket transport (graphql-transport-ws) with a
// gorilla client: connection_init, subscribe, frames read until complete / error. The run's
// cancel function closes the client's TCP connection abruptly (a client that vanishes
// mid-flight). Mode "tp:ws-noinit": the client upgrades and never sends connection_init -
// the server's InitTimeout ends the connection. In both cases the handler must return and
// nothing gqlgen started for the connection may stay alive (C05); the protocol itself is
// C11's subject and is not judged here.
func (p *Probe) execWS(run *Run, c *Cmd, res *Result) {
	srv := handler.New(p.ES)
	srv.AddTransport(transport.Websocket{KeepAlivePingInterval: 3 * time.Millisecond, InitTimeout: 150 * time.Millisecond})
	srv.SetRecoverFunc(RecoverFunc)
	srv.SetErrorPresenter(ErrorPresenter)
	srv.Use(faultExt{})
	served := make(chan struct{}, 1)
	ts := httptest.NewServer(http.HandlerFunc(func(w http.ResponseWriter, r *http.Request) {
		defer func() { served <- struct{}{} }()
		srv.ServeHTTP(w, r.WithContext(WithRun(r.Context(), run)))
	}))
	defer ts.Close()
	d := websocket.Dialer{Subprotocols: []string{"graphql-transport-ws"}, HandshakeTimeout: 5 * time.Second}
	conn, _, err := d.Dial("ws"+strings.TrimPrefix(ts.URL, "http")+"/", nil)
	if err != nil {
		res.Notes = append(res.Notes, "transport tp:ws dial failed: "+err.Error())
		res.Resps = append(res.Resps, Resp{Errs: []ErrP{}, HasNext: "-", Data: Tagged{"t": "absent"}})
		return
	}
	var once sync.Once
	drop := func() { once.Do(func() { conn.UnderlyingConn().Close() }) }
	run.mu.Lock()
	run.RespMarks = true
	run.Cancel = drop
	run.mu.Unlock()
	frames, end := 0, "eof"
	conn.SetReadDeadline(time.Now().Add(20 * time.Second))
	type msg struct {
		ID      string          `json:"id,omitempty"`
		Type    string          `json:"type"`
		Payload json.RawMessage `json:"payload,omitempty"`
	}
	read := func(until func(m msg) bool) bool {
		for {
			var m msg
			if err := conn.ReadJSON(&m); err != nil {
				return false
			}
			frames++
			if until(m) {
				return true
			}
		}
	}
	if c.Mode == "tp:ws-noinit" {
		// never initialise: the server gives up after InitTimeout and closes
		read(func(m msg) bool { return false })
		end = "closed-by-server"
	} else if conn.WriteJSON(msg{Type: "connection_init"}) == nil && read(func(m msg) bool { return m.Type == "connection_ack" }) {
		pl, _ := json.Marshal(map[string]any{"query": c.Query, "operationName": c.OpName, "variables": c.Vars})
		if conn.WriteJSON(msg{ID: "1", Type: "subscribe", Payload: pl}) == nil {
			if read(func(m msg) bool {
				if m.Type == "ping" {
					conn.WriteJSON(msg{Type: "pong"})
				}
				return m.ID == "1" && (m.Type == "complete" || m.Type == "error")
			}) {
				end = "complete"
				conn.WriteControl(websocket.CloseMessage, websocket.FormatCloseMessage(websocket.CloseNormalClosure, ""), time.Now().Add(time.Second))
			}
		}
	}
	drop()
	res.Notes = append(res.Notes, fmt.Sprintf("transport %s frames=%d end=%s", c.Mode, frames, end))
	res.Resps = append(res.Resps, Resp{Errs: []ErrP{}, HasNext: "-", Data: Tagged{"t": "absent"}})
	// the handler (the connection's run loop) must return
	to := 5 * time.Second
	if c.TimeoutMs > 0 {
		to = time.Duration(c.TimeoutMs) * time.Millisecond
	}
	select {
	case <-served:
	case <-time.After(to):
		res.Hung = true
		res.LeakStack = p.gqlgenStacks(4000)
	}
}

// ParseTransportBody splits the bytes a streaming (or plain) HTTP transport wrote into
// the GraphQL payloads they carry, in wire order: tp:post / tp:get one JSON document,
// tp:sse the data of every `next` event, tp:mixed every part (an `incremental` wrapper
// contributes its items). The error reports the first part that is not what the
// transport's framing promises (the payloads parsed so far are still returned).
func ParseTransportBody(mode, contentType string, wire []byte) ([]*graphql.Response, error) {
	var out []*graphql.Response
	one := func(b []byte) error {
		var r graphql.Response
		if err := json.Unmarshal(b, &r); err != nil {
			return fmt.Errorf("payload is not a JSON response: %v: %q", err, trunc(string(b), 300))
		}
		out = append(out, &r)
		return nil
	}
	switch mode {
	case "tp:sse":
		complete := false
		for _, ev := range strings.Split(string(wire), "\n\n") {
			switch {
			case ev == "" || strings.HasPrefix(ev, ":"):
			case strings.HasPrefix(ev, "event: next\ndata: "):
				if complete {
					return out, fmt.Errorf("next event after complete")
				}
				if err := one([]byte(strings.TrimPrefix(ev, "event: next\ndata: "))); err != nil {
					return out, err
				}
			case ev == "event: complete":
				complete = true
			default:
				return out, fmt.Errorf("malformed event %q", trunc(ev, 300))
			}
		}
		if !complete {
			return out, fmt.Errorf("stream ended without complete event")
		}
	case "tp:mixed":
		_, params, err := mime.ParseMediaType(contentType)
		if err != nil || params["boundary"] == "" {
			return out, fmt.Errorf("multipart response without boundary parameter: Content-Type %q", contentType)
		}
		parts := strings.Split(string(wire), "\r\n--"+params["boundary"])
		if len(parts) > 0 && strings.HasPrefix(parts[0], "--"+params["boundary"]) {
			// the first delimiter has no preceding line break
			parts = append([]string{"", strings.TrimPrefix(parts[0], "--"+params["boundary"])}, parts[1:]...)
		}
		if len(parts) < 2 || parts[0] != "" {
			return out, fmt.Errorf("stream does not start with a boundary: %q", trunc(string(wire), 200))
		}
		if strings.TrimSpace(parts[len(parts)-1]) != "--" {
			return out, fmt.Errorf("stream does not end with the closing boundary: %q", trunc(parts[len(parts)-1], 200))
		}
		for _, part := range parts[1 : len(parts)-1] {
			const hdr = "\r\nContent-Type: application/json\r\n\r\n"
			if !strings.HasPrefix(part, hdr) {
				return out, fmt.Errorf("part without the JSON content type header: %q", trunc(part, 200))
			}
			body := strings.TrimPrefix(part, hdr)
			var wrap struct {
				Incremental []json.RawMessage `json:"incremental"`
			}
			if err := json.Unmarshal([]byte(body), &wrap); err != nil {
				return out, fmt.Errorf("part is not JSON: %v: %q", err, trunc(body, 300))
			}
			if wrap.Incremental == nil {
				if err := one([]byte(body)); err != nil {
					return out, err
				}
				continue
			}
			for _, it := range wrap.Incremental {
				if err := one(it); err != nil {
					return out, err
				}
			}
		}
	default:
		if err := one(wire); err != nil {
			return out, err
		}
	}
	return out, nil
}

func trunc(s string, n int) string {
	if len(s) > n {
		return s[:n] + "..."
	}
	return s
}
