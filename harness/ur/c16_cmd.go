package ur

// C16: protocol command "c16" - run introspection (or introspection-hiding)
// operations through the generated server, serving either its own schema or a
// schema supplied as SDL (Config.Schema override), with or without the real
// extension.Introspection{}.

import (
	"context"
	"encoding/json"
	"fmt"
	"time"

	"github.com/vektah/gqlparser/v2"
	"github.com/vektah/gqlparser/v2/ast"

	"github.com/99designs/gqlgen/graphql"
	"github.com/99designs/gqlgen/graphql/executor"
	"github.com/99designs/gqlgen/graphql/handler/extension"
)

// C16NewES is set by the c16 probe's main: generated NewExecutableSchema with Config.Schema = s.
var C16NewES func(s *ast.Schema) graphql.ExecutableSchema

type C16Run struct {
	Query string         `json:"query"`
	Vars  map[string]any `json:"vars"`
	Ext   bool           `json:"ext"` // install extension.Introspection{}
}

type C16Cmd struct {
	Cmd  string   `json:"cmd"`
	ID   string   `json:"id"`
	SDL  string   `json:"sdl"` // "" = the server's own schema
	Runs []C16Run `json:"runs"`
}

type C16Out struct {
	Raw      string   `json:"raw"`       // the marshalled graphql.Response(s), one per payload
	GateErrs []string `json:"gate_errs"` // errors of CreateOperationContext (parse / validation)
	Err      string   `json:"err"`       // harness-level problem (panic on the caller, timeout)
}

type C16Res struct {
	ID   string   `json:"id"`
	Err  string   `json:"err"`
	Outs []C16Out `json:"outs"`
}

func init() {
	RegisterCmd("c16", func(p *Probe, line []byte) any {
		var c C16Cmd
		res := C16Res{Outs: []C16Out{}}
		if err := json.Unmarshal(line, &c); err != nil {
			res.Err = "decode: " + err.Error()
			return res
		}
		res.ID = c.ID
		es := p.ES
		if c.SDL != "" {
			if C16NewES == nil {
				res.Err = "probe has no C16NewES"
				return res
			}
			schema, err := gqlparser.LoadSchema(&ast.Source{Name: "c16.graphqls", Input: c.SDL})
			if err != nil {
				res.Err = "sdl: " + err.Error()
				return res
			}
			es = C16NewES(schema)
		}
		for _, r := range c.Runs {
			res.Outs = append(res.Outs, c16Exec(es, r))
		}
		return res
	})
}

func c16Exec(es graphql.ExecutableSchema, r C16Run) (out C16Out) {
	out.GateErrs = []string{}
	ex := executor.New(es)
	ex.SetRecoverFunc(RecoverFunc)
	ex.SetErrorPresenter(ErrorPresenter)
	if r.Ext {
		ex.Use(extension.Introspection{})
	}
	run := NewRun()
	base, cancel := context.WithCancel(WithRun(context.Background(), run))
	run.Cancel = cancel
	defer cancel()
	run.StartScheduler()
	defer run.Finish()
	done := make(chan struct{})
	var raw []byte
	var perr string
	go func() {
		defer close(done)
		defer func() {
			if rec := recover(); rec != nil {
				perr = fmt.Sprintf("escaped panic on caller: %v", rec)
			}
		}()
		ctx := graphql.StartOperationTrace(base)
		opCtx, errs := ex.CreateOperationContext(ctx, &graphql.RawParams{Query: r.Query, Variables: r.Vars})
		if errs != nil {
			for _, e := range errs {
				out.GateErrs = append(out.GateErrs, e.Message)
			}
			resp := ex.DispatchError(graphql.WithOperationContext(ctx, opCtx), errs)
			raw, _ = json.Marshal(resp)
			return
		}
		rh, ctx2 := ex.DispatchOperation(ctx, opCtx)
		resp := rh(ctx2)
		raw, _ = json.Marshal(resp)
	}()
	select {
	case <-done:
		out.Raw = string(raw)
		out.Err = perr
	case <-time.After(20 * time.Second):
		out.Err = "timeout"
	}
	return out
}
