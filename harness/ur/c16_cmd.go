package ur

// C16: protocol command "c16" - run introspection (or introspection-hiding)
// operations through the generated server, serving either its own schema or a
// schema supplied as SDL (Config.Schema override), with or without the real
// extension.Introspection{}.

import (
	"bytes"
	"context"
	"encoding/json"
	"fmt"
	"net/http"
	"net/http/httptest"
	"time"

	"github.com/vektah/gqlparser/v2"
	"github.com/vektah/gqlparser/v2/ast"

	"github.com/99designs/gqlgen/graphql"
	"github.com/99designs/gqlgen/graphql/executor"
	"github.com/99designs/gqlgen/graphql/handler"
	"github.com/99designs/gqlgen/graphql/handler/extension"
	"github.com/99designs/gqlgen/graphql/handler/transport"
	"github.com/vektah/gqlparser/v2/gqlerror"
)

// C16NewES is set by the c16 probe's main: generated NewExecutableSchema with Config.Schema = s.
var C16NewES func(s *ast.Schema) graphql.ExecutableSchema

// C16Item is one registration, in registration order: K = "intro" (the real
// extension.Introspection{}), "mut" (a user OperationContextMutator extension),
// "mw" (an AroundOperations guard). What a user mutator / guard does is decided
// PER REQUEST: it reads the request header X-C16-G<index> ("t": set
// DisableIntrospection, "f": clear it, anything else: leave it alone), the way
// a guard keyed on authentication does.
type C16Item struct {
	K string `json:"k"`
	W string `json:"w"`
}

type C16Run struct {
	Query string         `json:"query"`
	Vars  map[string]any `json:"vars"`
	Ext   bool           `json:"ext"`   // no chain given: install extension.Introspection{} alone
	Chain []C16Item      `json:"chain"` // registrations in order (overrides Ext when HasChain)
	// HasChain distinguishes "nothing registered" from "no chain given"
	HasChain bool `json:"has_chain"`
	// HTTP: go through handler.Server + transport.POST (srv.Use / srv.AroundOperations, ServeHTTP)
	// instead of executor.Executor directly
	HTTP bool `json:"http"`
}

// c16Mutator is a user extension that decides about introspection per request when the
// operation context is created.
type c16Mutator struct{ hdr string }

func (m c16Mutator) ExtensionName() string                          { return "C16Mutator" + m.hdr }
func (m c16Mutator) Validate(schema graphql.ExecutableSchema) error { return nil }
func (m c16Mutator) MutateOperationContext(ctx context.Context, opCtx *graphql.OperationContext) *gqlerror.Error {
	c16Decide(opCtx, m.hdr)
	return nil
}

func c16Decide(opCtx *graphql.OperationContext, hdr string) {
	switch opCtx.Headers.Get(hdr) {
	case "t":
		opCtx.DisableIntrospection = true
	case "f":
		opCtx.DisableIntrospection = false
	}
}

type c16Registrar interface {
	Use(extension graphql.HandlerExtension)
	AroundOperations(f graphql.OperationMiddleware)
}

// c16Register performs the registrations in order and returns the request headers carrying
// this request's decisions.
func c16Register(srv c16Registrar, r C16Run) http.Header {
	h := http.Header{}
	if !r.HasChain {
		if r.Ext {
			srv.Use(extension.Introspection{})
		}
		return h
	}
	for i, it := range r.Chain {
		hdr := fmt.Sprintf("X-C16-G%d", i+1)
		switch it.K {
		case "intro":
			srv.Use(extension.Introspection{})
		case "mut":
			srv.Use(c16Mutator{hdr: hdr})
			h.Set(hdr, it.W)
		case "mw":
			srv.AroundOperations(func(ctx context.Context, next graphql.OperationHandler) graphql.ResponseHandler {
				c16Decide(graphql.GetOperationContext(ctx), hdr)
				return next(ctx)
			})
			h.Set(hdr, it.W)
		}
	}
	return h
}

type C16Cmd struct {
	Cmd  string   `json:"cmd"`
	ID   string   `json:"id"`
	SDL  string   `json:"sdl"` // "" = the server's own schema
	Runs []C16Run `json:"runs"`
}

type C16Out struct {
	Raw      string   `json:"raw"`       // the marshalled graphql.Response(s), one per payload
	GateErrs []string `json:"gate_errs"` // errors of CreateOperationContext (parse / validation)
	Err      string   `json:"err"`       // harness-level problem (panic on the caller, timeout)
}

type C16Res struct {
	ID   string   `json:"id"`
	Err  string   `json:"err"`
	Outs []C16Out `json:"outs"`
}

func init() {
	RegisterCmd("c16", func(p *Probe, line []byte) any {
		var c C16Cmd
		res := C16Res{Outs: []C16Out{}}
		if err := json.Unmarshal(line, &c); err != nil {
			res.Err = "decode: " + err.Error()
			return res
		}
		res.ID = c.ID
		es := p.ES
		if c.SDL != "" {
			if C16NewES == nil {
				res.Err = "probe has no C16NewES"
				return res
			}
			schema, err := gqlparser.LoadSchema(&ast.Source{Name: "c16.graphqls", Input: c.SDL})
			if err != nil {
				res.Err = "sdl: " + err.Error()
				return res
			}
			es = C16NewES(schema)
		}
		for _, r := range c.Runs {
			res.Outs = append(res.Outs, c16Exec(es, r))
		}
		return res
	})
}

func c16Exec(es graphql.ExecutableSchema, r C16Run) (out C16Out) {
	out.GateErrs = []string{}
	var ex *executor.Executor
	var srv *handler.Server
	var hdrs http.Header
	if r.HTTP {
		srv = handler.New(es)
		srv.AddTransport(transport.POST{})
		srv.SetRecoverFunc(RecoverFunc)
		srv.SetErrorPresenter(ErrorPresenter)
		hdrs = c16Register(srv, r)
	} else {
		ex = executor.New(es)
		ex.SetRecoverFunc(RecoverFunc)
		ex.SetErrorPresenter(ErrorPresenter)
		hdrs = c16Register(ex, r)
	}
	run := NewRun()
	base, cancel := context.WithCancel(WithRun(context.Background(), run))
	run.Cancel = cancel
	defer cancel()
	run.StartScheduler()
	defer run.Finish()
	done := make(chan struct{})
	var raw []byte
	var perr string
	go func() {
		defer close(done)
		defer func() {
			if rec := recover(); rec != nil {
				perr = fmt.Sprintf("escaped panic on caller: %v", rec)
			}
		}()
		if r.HTTP {
			body, _ := json.Marshal(map[string]any{"query": r.Query, "variables": r.Vars})
			req := httptest.NewRequest(http.MethodPost, "/query", bytes.NewReader(body)).WithContext(base)
			req.Header = hdrs.Clone()
			req.Header.Set("Content-Type", "application/json")
			rec := httptest.NewRecorder()
			srv.ServeHTTP(rec, req)
			raw = rec.Body.Bytes()
			if rec.Code != http.StatusOK {
				// the operation did not pass CreateOperationContext (parse / validation / variables)
				var resp struct {
					Errors []struct {
						Message string `json:"message"`
					} `json:"errors"`
				}
				_ = json.Unmarshal(raw, &resp)
				for _, e := range resp.Errors {
					out.GateErrs = append(out.GateErrs, e.Message)
				}
				if len(out.GateErrs) == 0 {
					out.GateErrs = append(out.GateErrs, fmt.Sprintf("HTTP status %d", rec.Code))
				}
			}
			return
		}
		ctx := graphql.StartOperationTrace(base)
		opCtx, errs := ex.CreateOperationContext(ctx, &graphql.RawParams{Query: r.Query, Variables: r.Vars, Headers: hdrs})
		if errs != nil {
			for _, e := range errs {
				out.GateErrs = append(out.GateErrs, e.Message)
			}
			resp := ex.DispatchError(graphql.WithOperationContext(ctx, opCtx), errs)
			raw, _ = json.Marshal(resp)
			return
		}
		rh, ctx2 := ex.DispatchOperation(ctx, opCtx)
		resp := rh(ctx2)
		raw, _ = json.Marshal(resp)
	}()
	select {
	case <-done:
		out.Raw = string(raw)
		out.Err = perr
	case <-time.After(20 * time.Second):
		out.Err = "timeout"
	}
	return out
}
