package ur

// C20: plan-driven, gated, logging implementations of the federation Entity
// resolvers of a generated probe (FindXByY, FindManyXByYs) and of the
// resolver-backed @requires fields.
//
// Every entity resolver of one `_entities` call runs under the response path
// "_entities", so a path cannot identify the representation a call belongs to.
// Calls are therefore keyed by resolver name and key values:
//
//	individual:  findSByID(i2)            plan / gate / event key
//	batch call:  findManyMByIDs           plan (ok|short|long|null|err|panic) / gate / event key
//	batch elem:  findManyMByIDs(i2)       plan (ent | null) of the element answering that input
//
// The driver gives every representation a key value that names its index
// ("i<idx>"), so the `v` field of a returned entity (= the call key) tells
// which resolver produced the element at a response index and from which key.

import (
	"context"
	"encoding/json"
	"errors"
	"fmt"
	"reflect"
	"strconv"
	"strings"
	"unicode"
)

// C20Key renders the key of a resolver call: name(arg,arg...). Strings are
// unquoted, nil is "null".
func C20Key(name string, args []string) string {
	return name + "(" + strings.Join(args, ",") + ")"
}

func c20Arg(v reflect.Value) string {
	for v.IsValid() && (v.Kind() == reflect.Ptr || v.Kind() == reflect.Interface) {
		if v.IsNil() {
			return "null"
		}
		v = v.Elem()
	}
	if !v.IsValid() {
		return "null"
	}
	if v.Kind() == reflect.String {
		return v.String()
	}
	return Canon(v)
}

func lowerFirst(s string) string {
	if s == "" {
		return s
	}
	r := []rune(s)
	r[0] = unicode.ToLower(r[0])
	return string(r)
}

// C20FillEntities replaces the Entity group of a stubgen Stub and the
// resolvers of @requires fields (call after FillStub).
func C20FillEntities(u *Universe, stub any) {
	sv := reflect.ValueOf(stub).Elem()
	st := sv.Type()
	for i := 0; i < st.NumField(); i++ {
		grp := st.Field(i)
		if grp.Type.Kind() != reflect.Struct || !strings.HasSuffix(grp.Name, "Resolver") {
			continue
		}
		gv := sv.Field(i)
		tn := strings.TrimSuffix(grp.Name, "Resolver")
		for j := 0; j < grp.Type.NumField(); j++ {
			f := grp.Type.Field(j)
			if f.Type.Kind() != reflect.Func {
				continue
			}
			switch {
			case tn == "Entity" && strings.HasPrefix(f.Name, "FindMany"):
				gv.Field(j).Set(reflect.MakeFunc(f.Type, c20Batch(lowerFirst(f.Name), f.Type)))
			case tn == "Entity":
				gv.Field(j).Set(reflect.MakeFunc(f.Type, c20Single(lowerFirst(f.Name), f.Type)))
			default:
				gqlType := u.gqlTypeByGoName(tn)
				fname := u.gqlFieldByGoName(gqlType, f.Name)
				def := u.Schema.Types[gqlType]
				if def == nil {
					continue
				}
				fd := def.Fields.ForName(fname)
				if fd == nil || fd.Directives.ForName("requires") == nil {
					continue
				}
				gv.Field(j).Set(reflect.MakeFunc(f.Type, c20Requires(f.Type)))
			}
		}
	}
}

// c20Entity builds the entity a resolver returns: v = key (the only field the driver selects
// besides the @requires echo).
func c20Entity(t reflect.Type, key string) reflect.Value {
	ptr := t.Kind() == reflect.Ptr
	st := t
	if ptr {
		st = t.Elem()
	}
	pv := reflect.New(st)
	for i := 0; i < st.NumField(); i++ {
		sf := st.Field(i)
		if tag := strings.Split(sf.Tag.Get("json"), ",")[0]; tag != "v" {
			// the parents of nested @requires paths (dims { vol }): the inline population assigns
			// entity.Dims.Vol, so the resolver hands over an allocated parent (as user code must)
			if (tag == "dims" || tag == "box") && sf.Type.Kind() == reflect.Ptr && sf.Type.Elem().Kind() == reflect.Struct {
				pv.Elem().Field(i).Set(reflect.New(sf.Type.Elem()))
			}
			continue
		}
		switch {
		case sf.Type.Kind() == reflect.String:
			pv.Elem().Field(i).SetString(key)
		case sf.Type.Kind() == reflect.Ptr && sf.Type.Elem().Kind() == reflect.String:
			s := reflect.New(sf.Type.Elem())
			s.Elem().SetString(key)
			pv.Elem().Field(i).Set(s)
		}
	}
	if ptr {
		return pv
	}
	return pv.Elem()
}

// c20End logs the End event of a call and, when the plan carries the marker "c20:ret", parks once
// more at <key>#ret: the driver's script releases that gate before it releases the next call, so
// the recorded End events are totally ordered as the replayed behaviour prescribes.
func c20End(ctx context.Context, run *Run, key, outcome string) {
	run.Log(Event{E: "End", P: key, T: outcome})
	if _, ok := run.Plan["c20:ret"]; ok {
		run.park(ctx, key+"#ret")
	}
}

func c20Ret(rt reflect.Type, v reflect.Value, err error) []reflect.Value {
	ev := reflect.Zero(errType)
	if err != nil {
		ev = reflect.ValueOf(err).Convert(errType)
	}
	if !v.IsValid() {
		v = reflect.Zero(rt)
	}
	return []reflect.Value{v, ev}
}

func c20Single(name string, ft reflect.Type) func([]reflect.Value) []reflect.Value {
	rt := ft.Out(0)
	return func(in []reflect.Value) []reflect.Value {
		ctx := in[0].Interface().(context.Context)
		run := RunFrom(ctx)
		if run == nil {
			return c20Ret(rt, reflect.Value{}, errors.New("ur: no run in context"))
		}
		args := make([]string, 0, len(in)-1)
		for _, a := range in[1:] {
			args = append(args, c20Arg(a))
		}
		key := C20Key(name, args)
		run.Log(Event{E: "Start", P: key})
		run.park(ctx, key)
		out, ok := run.Plan[key]
		if !ok {
			out = Outcome{K: "ent"}
		}
		switch out.K {
		case "err":
			c20End(ctx, run, key, "err")
			return c20Ret(rt, reflect.Value{}, errors.New("E:"+key))
		case "panic":
			c20End(ctx, run, key, "panic")
			panic("P:" + key)
		case "null":
			if rt.Kind() != reflect.Ptr {
				run.mu.Lock()
				run.Notes = append(run.Notes, "inapplicable: null for non-nilable "+rt.String()+" at "+key)
				run.mu.Unlock()
			}
			c20End(ctx, run, key, "null")
			return c20Ret(rt, reflect.Value{}, nil)
		}
		c20End(ctx, run, key, "ent")
		return c20Ret(rt, c20Entity(rt, key), nil)
	}
}

func c20Batch(name string, ft reflect.Type) func([]reflect.Value) []reflect.Value {
	rt := ft.Out(0) // []*T
	return func(in []reflect.Value) []reflect.Value {
		ctx := in[0].Interface().(context.Context)
		run := RunFrom(ctx)
		if run == nil {
			return c20Ret(rt, reflect.Value{}, errors.New("ur: no run in context"))
		}
		reps := in[1]
		keys := make([]string, reps.Len())
		for i := range keys {
			iv := reps.Index(i)
			for iv.Kind() == reflect.Ptr && !iv.IsNil() {
				iv = iv.Elem()
			}
			var args []string
			if iv.Kind() == reflect.Struct {
				for k := 0; k < iv.NumField(); k++ {
					args = append(args, c20Arg(iv.Field(k)))
				}
			} else {
				args = []string{"null"}
			}
			keys[i] = C20Key(name, args)
		}
		run.Log(Event{E: "Start", P: name, A: strings.Join(keys, " ")})
		run.park(ctx, name)
		out, ok := run.Plan[name]
		if !ok {
			out = Outcome{K: "ok"}
		}
		switch out.K {
		case "err":
			c20End(ctx, run, name, "err")
			return c20Ret(rt, reflect.Value{}, errors.New("E:"+name))
		case "panic":
			c20End(ctx, run, name, "panic")
			panic("P:" + name)
		case "null":
			c20End(ctx, run, name, "null")
			return c20Ret(rt, reflect.Value{}, nil)
		}
		n := len(keys)
		switch out.K {
		case "short":
			n--
		case "long":
			n++
		}
		if n < 0 {
			n = 0
		}
		res := reflect.MakeSlice(rt, n, n)
		for i := 0; i < n; i++ {
			k := C20Key(name, []string{"extra"})
			if i < len(keys) {
				k = keys[i]
			}
			if eo, ok := run.Plan[k]; ok && eo.K == "null" {
				if rt.Elem().Kind() == reflect.Ptr {
					continue
				}
				run.mu.Lock()
				run.Notes = append(run.Notes, "inapplicable: null for non-nilable "+rt.Elem().String()+" at "+k)
				run.mu.Unlock()
			}
			res.Index(i).Set(c20Entity(rt.Elem(), k))
		}
		c20End(ctx, run, name, out.K)
		return c20Ret(rt, res, nil)
	}
}

// The @requires fields of the probe: w: String, n: Int!, l: [String!]. c20CoerceReq coerces the
// value a representation carries for one of them the way user code (an explicit_requires
// populator, a computed_requires resolver) has to: absent / null is legal for the nullable ones.
func c20CoerceReq(field string, v any, present bool) (any, error) {
	if !present {
		v = nil
	}
	kind := field
	for _, rp := range c20ReqPaths {
		if strings.Join(rp.P, ".") == field {
			kind = rp.Kind
		}
	}
	if kind == "I?" {
		if v == nil {
			return nil, nil
		}
		kind = "n"
	}
	switch kind {
	case "w":
		switch x := v.(type) {
		case nil:
			return nil, nil
		case string:
			return x, nil
		}
	case "n":
		switch x := v.(type) {
		case float64:
			if x == float64(int(x)) {
				return int(x), nil
			}
		case int:
			return x, nil
		case int64:
			return int(x), nil
		case json.Number:
			if n, err := x.Int64(); err == nil {
				return int(n), nil
			}
		}
	case "l":
		switch x := v.(type) {
		case nil:
			return nil, nil
		case []any:
			out := make([]string, len(x))
			for i, e := range x {
				s, ok := e.(string)
				if !ok {
					return nil, fmt.Errorf("E:requires %s[%d]: %T is not a String", field, i, e)
				}
				out[i] = s
			}
			return out, nil
		}
	}
	return nil, fmt.Errorf("E:requires %s: cannot coerce %T", field, v)
}

func c20EchoVal(v any) string {
	switch x := v.(type) {
	case nil:
		return "null"
	case string:
		return x
	case int:
		return strconv.Itoa(x)
	case []string:
		if x == nil {
			return "null"
		}
		if len(x) == 0 {
			return "empty"
		}
		return x[0]
	}
	return fmt.Sprint(v)
}

// The required paths of the probe types, flat and nested, with the way their values coerce
// (w: nullable String, n: Int!, l: [String!], "I?": nullable Int). P / Pm (round 4) require
// dimsVol, dims { vol }, dims { wt }, box { vol } - through several @requires directives.
type c20ReqPath struct {
	P    []string
	Kind string
}

var c20ReqPaths = []c20ReqPath{{[]string{"w"}, "w"}, {[]string{"n"}, "n"}, {[]string{"l"}, "l"},
	{[]string{"dimsVol"}, "n"}, {[]string{"dims", "vol"}, "I?"}, {[]string{"dims", "wt"}, "n"}, {[]string{"box", "vol"}, "I?"}}

// c20Lookup finds the value a representation carries for a path (absent: a missing leaf or a
// missing / non-object parent).
func c20Lookup(m map[string]any, path []string) (any, bool) {
	var cur any = m
	for _, seg := range path {
		mm, ok := cur.(map[string]any)
		if !ok {
			return nil, false
		}
		cur, ok = mm[seg]
		if !ok {
			return nil, false
		}
	}
	return cur, true
}

// c20FieldByPath descends an entity struct along the json tags of a path; alloc: allocate nil
// parents on the way. ok = false: the type has no such path; a nil parent (alloc = false) yields an
// invalid Value with ok = true.
func c20FieldByPath(st reflect.Value, path []string, alloc bool) (reflect.Value, bool) {
	cur := st
	for k, seg := range path {
		fv, ok := c20FieldByTag(cur, seg)
		if !ok {
			return reflect.Value{}, false
		}
		if k == len(path)-1 {
			return fv, true
		}
		if fv.Kind() == reflect.Ptr {
			if fv.IsNil() {
				if !alloc {
					return reflect.Value{}, true
				}
				fv.Set(reflect.New(fv.Type().Elem()))
			}
			fv = fv.Elem()
		}
		if fv.Kind() != reflect.Struct {
			return reflect.Value{}, false
		}
		cur = fv
	}
	return reflect.Value{}, false
}

func c20FieldByTag(st reflect.Value, tag string) (reflect.Value, bool) {
	for i := 0; i < st.NumField(); i++ {
		if strings.Split(st.Type().Field(i).Tag.Get("json"), ",")[0] == tag {
			return st.Field(i), true
		}
	}
	return reflect.Value{}, false
}

// c20Requires implements the resolver-backed @requires field z: it echoes the required external
// fields of its type (w, n, l joined by "|") - coerced from the injected _federationRequires
// argument (computed_requires; a value that cannot be coerced is the resolver's error), or read
// from the entity the generated code / the populator filled.
func c20Requires(ft reflect.Type) func([]reflect.Value) []reflect.Value {
	rt := ft.Out(0)
	return func(in []reflect.Value) []reflect.Value {
		var reqMap reflect.Value
		for _, a := range in[1:] {
			if a.Kind() == reflect.Map {
				reqMap = a
			}
		}
		obj := in[1]
		for obj.Kind() == reflect.Ptr && !obj.IsNil() {
			obj = obj.Elem()
		}
		var parts []string
		var err error
		if obj.Kind() == reflect.Struct {
			for _, rp := range c20ReqPaths {
				f := strings.Join(rp.P, ".")
				fv, ok := c20FieldByPath(obj, rp.P, false)
				if !ok {
					continue
				}
				if reqMap.IsValid() {
					var raw any
					present := false
					if !reqMap.IsNil() {
						if mm, ok := reqMap.Interface().(map[string]any); ok {
							raw, present = c20Lookup(mm, rp.P)
						}
					}
					cv, cerr := c20CoerceReq(f, raw, present)
					if cerr != nil && err == nil {
						err = cerr
					}
					parts = append(parts, c20EchoVal(cv))
					continue
				}
				for fv.Kind() == reflect.Ptr && !fv.IsNil() {
					fv = fv.Elem()
				}
				switch {
				case !fv.IsValid(): // a nil parent of a nested path
					parts = append(parts, "null")
				case fv.Kind() == reflect.Ptr:
					parts = append(parts, "null")
				case fv.Kind() == reflect.Slice && fv.IsNil():
					parts = append(parts, "null")
				case fv.Kind() == reflect.Slice:
					if fv.Len() == 0 {
						parts = append(parts, "empty")
					} else {
						parts = append(parts, c20Arg(fv.Index(0)))
					}
				default:
					parts = append(parts, c20Arg(fv))
				}
			}
		}
		if err != nil {
			return c20Ret(rt, reflect.Value{}, err)
		}
		val := strings.Join(parts, "|")
		var v reflect.Value
		switch {
		case rt.Kind() == reflect.String:
			v = reflect.ValueOf(val).Convert(rt)
		case rt.Kind() == reflect.Ptr && rt.Elem().Kind() == reflect.String:
			v = reflect.New(rt.Elem())
			v.Elem().SetString(val)
		}
		return c20Ret(rt, v, nil)
	}
}

// C20Populate is the body of the user-written explicit_requires populators of the probe
// (probes/fed2/federation.requires.go.in): coerce the required fields from the representation
// handed over by the generated code into the entity; a value that cannot be coerced is an error.
// A nil entity (the resolver found nothing) is left alone.
func C20Populate(ctx context.Context, typ string, entity any, reps map[string]any) error {
	ev := reflect.ValueOf(entity)
	if ev.Kind() != reflect.Ptr || ev.IsNil() {
		return nil
	}
	id := fmt.Sprint(reps["id"])
	if run := RunFrom(ctx); run != nil {
		run.Log(Event{E: "Pop", P: typ + "(" + id + ")"})
	}
	st := ev.Elem()
	for _, rp := range c20ReqPaths {
		f := strings.Join(rp.P, ".")
		fv, ok := c20FieldByPath(st, rp.P, true)
		if !ok || !fv.IsValid() {
			continue
		}
		raw, present := c20Lookup(reps, rp.P)
		cv, err := c20CoerceReq(f, raw, present)
		if err != nil {
			return err
		}
		switch x := cv.(type) {
		case nil:
			fv.Set(reflect.Zero(fv.Type()))
		case string:
			if fv.Kind() == reflect.Ptr {
				p := reflect.New(fv.Type().Elem())
				p.Elem().SetString(x)
				fv.Set(p)
			} else {
				fv.SetString(x)
			}
		case int:
			if fv.Kind() == reflect.Ptr {
				p := reflect.New(fv.Type().Elem())
				p.Elem().SetInt(int64(x))
				fv.Set(p)
			} else {
				fv.SetInt(int64(x))
			}
		case []string:
			sl := reflect.MakeSlice(fv.Type(), len(x), len(x))
			for i, e := range x {
				el := sl.Index(i)
				if el.Kind() == reflect.Ptr {
					p := reflect.New(el.Type().Elem())
					p.Elem().SetString(e)
					el.Set(p)
				} else {
					el.SetString(e)
				}
			}
			fv.Set(sl)
		}
	}
	return nil
}
