package ur

// C14 (complexity limit is a sound gate): the part of the harness that drives a
// REAL gqlgen server over one case printed by spec/Complexity.tla. It is shared
// by the check driver (hand-written ExecutableSchema, in process) and by the
// generated probe servers (probe-protocol command "c14"), where the cost
// functions are installed in the generated ComplexityRoot so that the
// generated Complexity() switch is what complexity.Calculate talks to.

import (
	"bytes"
	"context"
	"encoding/json"
	"fmt"
	"math"
	"net/http"
	"net/http/httptest"
	"reflect"
	"strconv"
	"strings"
	"sync"
	"sync/atomic"
	"time"

	"github.com/vektah/gqlparser/v2"
	"github.com/vektah/gqlparser/v2/ast"
	"github.com/vektah/gqlparser/v2/validator"

	"github.com/99designs/gqlgen/complexity"
	"github.com/99designs/gqlgen/graphql"
	"github.com/99designs/gqlgen/graphql/handler"
	"github.com/99designs/gqlgen/graphql/handler/extension"
	"github.com/99designs/gqlgen/graphql/handler/lru"
	"github.com/99designs/gqlgen/graphql/handler/transport"
)

// C14Cost is one concretised custom cost function (user code).
type C14Cost struct {
	K string `json:"k"` // const | add | mul | sub | arg
	C int64  `json:"c"`
	M int64  `json:"m"`
}

type C14Case struct {
	Cmd    string         `json:"cmd"`
	ID     string         `json:"id"`
	Query  string         `json:"query"`
	OpName string         `json:"opname"`
	Vars   map[string]any `json:"vars"`
	// Costs is keyed by ComplexityRoot ENTRY ("Type.GoName" as the model names it,
	// e.g. "Sh.Products", "A.id"; matched to the generated struct field
	// case-insensitively, '_' ignored). Several GraphQL fields may be served by
	// one entry (spec/Complexity.tla, state bnd).
	Costs map[string]C14Cost `json:"costs"`
	// Table mode: no operation; ExecutableSchema.Complexity(type, field, child,
	// rawArgs) is called directly for every probe (the generated switch itself).
	Table []C14Probe `json:"table,omitempty"`
	// Layout mode: report the ComplexityRoot layout, field declaration order and
	// which fields are resolver-backed.
	Layout bool    `json:"layout,omitempty"`
	Limits []int64 `json:"limits"`
	Fixed  bool    `json:"fixed"` // FixedComplexityLimit (one server per limit) instead of ComplexityLimit{Func}
	// CalcCtx/CalcK: complexity.Calculate is evaluated a second time under this context state
	// ("cancelled" | "deadline" | "during": the CalcK-th call of a custom complexity function cancels it).
	CalcCtx string `json:"calc_ctx,omitempty"`
	CalcK   int    `json:"calc_k,omitempty"`
	// History mode (spec/ComplexityGate.tla): ONE server, optionally with a query
	// cache, receives the steps in order; Limits is unused.
	Cache string    `json:"cache"` // "" / none | map | lru | lru1
	Hist  []C14Step `json:"hist"`
}

// C14Step is one request of a history.
type C14Step struct {
	Query string         `json:"query"` // "" = the case's query text
	Vars  map[string]any `json:"vars"`
	Limit int64          `json:"limit"`
	// the request's context (spec/ComplexityGate.tla, Mode "ctx"): "" / "live", "cancelled" (cancelled before the
	// request is handled), "deadline" (its deadline has passed before), "during" (cancelled from inside the
	// K-th call of a custom complexity function while the operation is priced)
	Ctx string `json:"ctx,omitempty"`
	K   int    `json:"k,omitempty"`
}

type C14Run struct {
	Limit      int64    `json:"limit"`
	Status     int      `json:"status"`
	Errors     []string `json:"errors"`
	Codes      []string `json:"codes"`
	HasData    bool     `json:"has_data"`
	Resolved   int      `json:"resolved"` // resolver invocations (probe) / Exec invocations (hand-written schema)
	StatsSeen  bool     `json:"stats_seen"`
	StatsCx    int64    `json:"stats_cx"`
	StatsLimit int64    `json:"stats_limit"`
	Bad        string   `json:"bad,omitempty"`
	Fired      bool     `json:"fired,omitempty"` // Ctx "during": the K-th custom complexity function ran and cancelled the context
	CtxErr     string   `json:"ctx_err,omitempty"`
}

// C14Probe is one direct call of ExecutableSchema.Complexity.
type C14Probe struct {
	Type  string `json:"type"`
	Field string `json:"field"`
	Child int64  `json:"child"`
	HasX  bool   `json:"has_x"` // rawArgs = {"x": X}, else {}
	X     int64  `json:"x"`
}

// C14Cell is what Complexity() answered for one probe.
type C14Cell struct {
	Ok    bool   `json:"ok"`
	V     int64  `json:"v"`
	Panic string `json:"panic,omitempty"`
}

// C14Layout describes the generated code's side of the binding.
type C14Layout struct {
	// Entries[GraphQL type] = the function fields of ComplexityRoot.<Type>, with the number of arguments after childComplexity
	Entries map[string]map[string]int `json:"entries"`
	// Order[GraphQL object type] = its fields in declaration order
	Order map[string][]string `json:"order"`
	// Res["Type.field"] = resolver-backed (a method of the generated resolver interface)
	Res map[string]bool `json:"res"`
}

type C14Result struct {
	ID      string     `json:"id"`
	Cells   []C14Cell  `json:"cells,omitempty"`
	Layout  *C14Layout `json:"layout,omitempty"`
	Calc    int64      `json:"calc"`
	CalcErr string     `json:"calc_err,omitempty"`
	Calcs   []int64    `json:"calcs"` // history mode: complexity.Calculate per step (under the step's context state)
	// regular cases with CalcCtx: complexity.Calculate under that context state
	CalcCtxV     int64    `json:"calc_ctx_v,omitempty"`
	CalcCtxFired bool     `json:"calc_ctx_fired,omitempty"`
	CalcsFired   []bool   `json:"calcs_fired,omitempty"`
	Runs         []C14Run `json:"runs"`
	Err          string   `json:"error,omitempty"`
}

func c14SatAdd(a, b int) int {
	if b > 0 && a > math.MaxInt-b {
		return math.MaxInt
	}
	return a + b
}

func c14SatMul(a, k int) int {
	if a > 0 && k > 0 && a > math.MaxInt/k {
		return math.MaxInt
	}
	return a * k
}

// C14Apply evaluates a cost function of the family (ApplyCost in the spec).
func C14Apply(c C14Cost, child int, x int64) int {
	switch c.K {
	case "const":
		return int(c.C)
	case "add":
		return c14SatAdd(child, int(c.C))
	case "mul":
		return c14SatMul(child, int(c.M))
	case "sub":
		return child - int(c.C)
	case "arg":
		return c14SatAdd(child, int(x))
	case "argmul":
		return c14SatMul(c14SatAdd(child, 1), int(x))
	}
	return 0
}

// C14ArgX extracts the value of argument x from the args map Complexity() receives.
func C14ArgX(args map[string]any) int64 {
	switch v := args["x"].(type) {
	case int64:
		return v
	case int:
		return int64(v)
	case int32:
		return int64(v)
	case float64:
		return int64(v)
	case json.Number:
		n, _ := v.Int64()
		return n
	case *int:
		if v != nil {
			return int64(*v)
		}
	}
	return 0
}

type c14Key struct{}

// c14Holder collects what one HTTP request (or one direct Calculate) did.
type c14Holder struct {
	mu        sync.Mutex
	execs     int
	statsSeen bool
	statsCx   int64
	statsLim  int64
	// the context dimension: the cancelAt-th call of a custom complexity function cancels the context
	priced   int
	cancelAt int
	cancel   context.CancelFunc
	fired    bool
}

// pricedOne is called by every custom complexity function (user code) when it runs.
func (h *c14Holder) pricedOne() {
	h.mu.Lock()
	h.priced++
	hit := h.cancelAt > 0 && h.priced == h.cancelAt && h.cancel != nil
	if hit {
		h.fired = true
	}
	h.mu.Unlock()
	if hit {
		h.cancel()
	}
}

// C14Priced is called by a hand-written ExecutableSchema.Complexity when it evaluates a configured function.
func C14Priced(ctx context.Context) {
	if h, _ := ctx.Value(c14Key{}).(*c14Holder); h != nil {
		h.pricedOne()
	}
}

// c14Cur is the holder of the request / calculation in flight in a generated probe (one case at a time per
// process): the ComplexityRoot functions have no context parameter.
var c14Cur atomic.Pointer[c14Holder]

// c14Ctx builds the context of one request or calculation in the state the case asks for.
func c14Ctx(base context.Context, h *c14Holder, state string, k int) (context.Context, context.CancelFunc) {
	base = context.WithValue(base, c14Key{}, h)
	switch state {
	case "cancelled":
		ctx, cancel := context.WithCancel(base)
		cancel()
		return ctx, cancel
	case "deadline":
		return context.WithDeadline(base, time.Now().Add(-time.Hour))
	case "during":
		ctx, cancel := context.WithCancel(base)
		h.cancelAt, h.cancel = k, cancel
		return ctx, cancel
	}
	return context.WithCancel(base)
}

func (h *c14Holder) noteStats(ctx context.Context) {
	if s := extension.GetComplexityStats(ctx); s != nil {
		h.mu.Lock()
		h.statsSeen, h.statsCx, h.statsLim = true, int64(s.Complexity), int64(s.ComplexityLimit)
		h.mu.Unlock()
	}
}

// C14NoteExec is called by a hand-written ExecutableSchema.Exec: execution started.
func C14NoteExec(ctx context.Context) {
	if h, _ := ctx.Value(c14Key{}).(*c14Holder); h != nil {
		h.mu.Lock()
		h.execs++
		h.mu.Unlock()
		h.noteStats(ctx)
	}
}

// c14Stats observes ComplexityStats on every response, also on rejected ones.
type c14Stats struct{}

func (c14Stats) ExtensionName() string                   { return "VerifC14Stats" }
func (c14Stats) Validate(graphql.ExecutableSchema) error { return nil }
func (c14Stats) InterceptResponse(ctx context.Context, next graphql.ResponseHandler) *graphql.Response {
	resp := next(ctx)
	if h, _ := ctx.Value(c14Key{}).(*c14Holder); h != nil {
		h.noteStats(ctx)
	}
	return resp
}

const c14LimitHeader = "X-Verif-Limit"

func c14Server(es graphql.ExecutableSchema, fixed bool, limit int64) *handler.Server {
	srv := handler.New(es)
	srv.AddTransport(transport.POST{})
	srv.Use(extension.Introspection{})
	if fixed {
		srv.Use(extension.FixedComplexityLimit(int(limit)))
	} else {
		srv.Use(&extension.ComplexityLimit{Func: func(ctx context.Context, opCtx *graphql.OperationContext) int {
			n, err := strconv.ParseInt(opCtx.Headers.Get(c14LimitHeader), 10, 64)
			if err != nil {
				panic("c14: no limit header")
			}
			return int(n)
		}})
	}
	srv.Use(c14Stats{})
	srv.SetRecoverFunc(RecoverFunc)
	return srv
}

// c14Calc is complexity.Calculate on the operation as the server would see it.
// The document is parsed and validated once; Calculate is called once per context state asked for.
type c14CtxSpec struct {
	state string
	k     int
}

func c14Calc(es graphql.ExecutableSchema, query, opName string, reqVars map[string]any, state string, k int) (calc int64, fired bool, calcErr, err string) {
	calcs, fireds, calcErr, err := c14CalcN(es, query, opName, reqVars, []c14CtxSpec{{state, k}})
	if len(calcs) == 1 {
		return calcs[0], fireds[0], calcErr, err
	}
	return 0, false, calcErr, err
}

func c14CalcN(es graphql.ExecutableSchema, query, opName string, reqVars map[string]any, specs []c14CtxSpec) (calcs []int64, fireds []bool, calcErr, err string) {
	defer func() {
		if r := recover(); r != nil {
			calcErr = fmt.Sprintf("panic: %v", r)
		}
	}()
	doc, errs := gqlparser.LoadQuery(es.Schema(), query)
	if errs != nil {
		return nil, nil, "", "query does not validate: " + errs.Error()
	}
	op := doc.Operations.ForName(opName)
	if op == nil {
		return nil, nil, "", "operation not found: " + opName
	}
	// decode variables like the POST transport does (json.Number)
	var rawVars map[string]any
	vb, _ := json.Marshal(reqVars)
	dec := json.NewDecoder(bytes.NewReader(vb))
	dec.UseNumber()
	if e := dec.Decode(&rawVars); e != nil {
		return nil, nil, "", "variables: " + e.Error()
	}
	vars, e := validator.VariableValues(es.Schema(), op, rawVars)
	if e != nil {
		return nil, nil, "", "variables: " + e.Error()
	}
	defer c14Cur.Store(nil)
	for _, sp := range specs {
		h := &c14Holder{}
		ctx, cancel := c14Ctx(context.Background(), h, sp.state, sp.k)
		c14Cur.Store(h)
		calc := int64(complexity.Calculate(ctx, es, op, vars))
		cancel()
		h.mu.Lock()
		fireds = append(fireds, h.fired)
		h.mu.Unlock()
		calcs = append(calcs, calc)
	}
	return calcs, fireds, "", ""
}

// c14Request sends one HTTP POST to srv and reports what happened.
func c14Request(srv *handler.Server, query, opName string, vars map[string]any, lim int64, state string, k int) C14Run {
	if vars == nil {
		vars = map[string]any{}
	}
	body, _ := json.Marshal(map[string]any{"query": query, "operationName": opName, "variables": vars})
	run := NewRun()
	h := &c14Holder{}
	ctx, cancel := c14Ctx(WithRun(context.Background(), run), h, state, k)
	defer cancel()
	c14Cur.Store(h)
	defer c14Cur.Store(nil)
	req := httptest.NewRequest(http.MethodPost, "/query", bytes.NewReader(body)).WithContext(ctx)
	req.Header.Set("Content-Type", "application/json")
	req.Header.Set(c14LimitHeader, strconv.FormatInt(lim, 10))
	rec := httptest.NewRecorder()
	r := C14Run{Limit: lim, Errors: []string{}, Codes: []string{}}
	func() {
		defer func() {
			if p := recover(); p != nil {
				r.Bad = fmt.Sprintf("panic escaped ServeHTTP: %v", p)
			}
		}()
		srv.ServeHTTP(rec, req)
	}()
	run.Finish()
	r.Status = rec.Code
	var out struct {
		Data   json.RawMessage `json:"data"`
		Errors []struct {
			Message    string         `json:"message"`
			Extensions map[string]any `json:"extensions"`
		} `json:"errors"`
	}
	if err := json.Unmarshal(rec.Body.Bytes(), &out); err != nil {
		r.Bad = "response is not JSON: " + err.Error() + ": " + rec.Body.String()
	}
	r.HasData = len(out.Data) > 0 && string(out.Data) != "null"
	for _, e := range out.Errors {
		r.Errors = append(r.Errors, e.Message)
		code, _ := e.Extensions["code"].(string)
		r.Codes = append(r.Codes, code)
	}
	r.Resolved = h.execs
	for _, ev := range run.Events() {
		if ev.E == "Start" {
			r.Resolved++
		}
	}
	h.mu.Lock()
	r.StatsSeen, r.StatsCx, r.StatsLimit = h.statsSeen, h.statsCx, h.statsLim
	r.Fired = h.fired
	h.mu.Unlock()
	if e := ctx.Err(); e != nil {
		r.CtxErr = e.Error()
	}
	return r
}

func c14Cell(es graphql.ExecutableSchema, pr C14Probe) (cell C14Cell) {
	defer func() {
		if r := recover(); r != nil {
			cell.Panic = fmt.Sprintf("%v", r)
		}
	}()
	raw := map[string]any{}
	if pr.HasX {
		raw["x"] = pr.X // what ast.Field.ArgumentMap yields for an Int literal
	}
	v, ok := es.Complexity(context.Background(), pr.Type, pr.Field, int(pr.Child), raw)
	return C14Cell{Ok: ok, V: int64(v)}
}

// C14Exec runs one case against the real code: complexity.Calculate, then one
// HTTP POST per limit against handler.New(es) + the ComplexityLimit extension;
// in history mode one server receives the steps in order.
func C14Exec(es graphql.ExecutableSchema, c *C14Case) (res *C14Result) {
	res = &C14Result{ID: c.ID, Runs: []C14Run{}, Calcs: []int64{}}
	defer func() {
		if r := recover(); r != nil {
			res.Err = fmt.Sprintf("harness panic: %v", r)
		}
	}()
	if len(c.Table) > 0 {
		for _, pr := range c.Table {
			res.Cells = append(res.Cells, c14Cell(es, pr))
		}
		return res
	}
	if len(c.Hist) > 0 {
		srv := c14Server(es, false, 0)
		switch c.Cache {
		case "map":
			srv.SetQueryCache(graphql.MapCache[*ast.QueryDocument]{})
		case "lru":
			srv.SetQueryCache(lru.New[*ast.QueryDocument](1000))
		case "lru1":
			srv.SetQueryCache(lru.New[*ast.QueryDocument](1))
		}
		for _, st := range c.Hist {
			q := st.Query
			if q == "" {
				q = c.Query
			}
			calc, fired, cerr, err := c14Calc(es, q, c.OpName, st.Vars, st.Ctx, st.K)
			if err != "" {
				res.Err = err
				return res
			}
			if cerr != "" {
				res.CalcErr = cerr
			}
			res.Calcs = append(res.Calcs, calc)
			res.CalcsFired = append(res.CalcsFired, fired)
			res.Runs = append(res.Runs, c14Request(srv, q, c.OpName, st.Vars, st.Limit, st.Ctx, st.K))
		}
		return res
	}
	// (a) complexity.Calculate
	var err string
	specs := []c14CtxSpec{{"", 0}}
	if c.CalcCtx != "" {
		specs = append(specs, c14CtxSpec{c.CalcCtx, c.CalcK})
	}
	var calcs []int64
	var fireds []bool
	calcs, fireds, res.CalcErr, err = c14CalcN(es, c.Query, c.OpName, c.Vars, specs)
	if err != "" {
		res.Err = err
		return res
	}
	if len(calcs) > 0 {
		res.Calc = calcs[0]
	}
	if len(calcs) > 1 {
		res.CalcCtxV, res.CalcCtxFired = calcs[1], fireds[1]
	}
	// (b) the server
	var shared *handler.Server
	if !c.Fixed {
		shared = c14Server(es, false, 0)
	}
	for _, lim := range c.Limits {
		srv := shared
		if c.Fixed {
			srv = c14Server(es, true, lim)
		}
		res.Runs = append(res.Runs, c14Request(srv, c.Query, c.OpName, c.Vars, lim, "", 0))
	}
	return res
}

// ---------------------------------------------------------------------------
// generated probe side

var c14Gen struct {
	root reflect.Value // *ComplexityRoot of the generated Config
	mk   func() graphql.ExecutableSchema
	u    *Universe
}

// C14Register is called by the c14 probe's main: root points at cfg.Complexity,
// mk builds an ExecutableSchema from the (mutated) cfg.
func C14Register(u *Universe, root any, mk func() graphql.ExecutableSchema) {
	c14Gen.root = reflect.ValueOf(root)
	c14Gen.mk = mk
	c14Gen.u = u
}

// c14Install sets exactly the ComplexityRoot functions named by costs (all
// others nil, so the generated switch reports "no custom complexity").
func c14Install(costs map[string]C14Cost) (missing []string) {
	root := c14Gen.root.Elem()
	rt := root.Type()
	seen := map[string]bool{}
	// entry keys are compared like gqlgen derives Go names: case-insensitively, '_' ignored
	byKey := map[string]string{}
	for k := range costs {
		byKey[normName(k)] = k
	}
	for i := 0; i < rt.NumField(); i++ {
		grp := rt.Field(i)
		if grp.Type.Kind() != reflect.Struct {
			continue
		}
		gqlType := c14Gen.u.gqlTypeByGoName(grp.Name)
		gv := root.Field(i)
		for j := 0; j < grp.Type.NumField(); j++ {
			f := grp.Type.Field(j)
			if f.Type.Kind() != reflect.Func {
				continue
			}
			slot, ok := byKey[normName(gqlType+"."+f.Name)]
			if !ok {
				gv.Field(j).Set(reflect.Zero(f.Type))
				continue
			}
			cost := costs[slot]
			seen[slot] = true
			gv.Field(j).Set(reflect.MakeFunc(f.Type, func(in []reflect.Value) []reflect.Value {
				if h := c14Cur.Load(); h != nil {
					h.pricedOne() // user code runs: the context dimension may cancel the request here
				}
				child := int(in[0].Int())
				var x int64
				for _, a := range in[1:] {
					// the first int-typed argument is x
					if a.Kind() == reflect.Ptr && a.Type().Elem().Kind() == reflect.Int {
						if !a.IsNil() {
							x = a.Elem().Int()
						}
						break
					}
					if a.Kind() == reflect.Int {
						x = a.Int()
						break
					}
				}
				return []reflect.Value{reflect.ValueOf(C14Apply(cost, child, x))}
			}))
		}
	}
	for s := range costs {
		if !seen[s] {
			missing = append(missing, s)
		}
	}
	return missing
}

// c14Layout reads the generated ComplexityRoot by reflection (NOT through the
// generated Complexity() switch) and the schema's declaration order.
func c14Layout() *C14Layout {
	l := &C14Layout{Entries: map[string]map[string]int{}, Order: map[string][]string{}, Res: map[string]bool{}}
	root := c14Gen.root.Elem()
	rt := root.Type()
	for i := 0; i < rt.NumField(); i++ {
		grp := rt.Field(i)
		if grp.Type.Kind() != reflect.Struct {
			continue
		}
		gqlType := c14Gen.u.gqlTypeByGoName(grp.Name)
		m := map[string]int{}
		for j := 0; j < grp.Type.NumField(); j++ {
			f := grp.Type.Field(j)
			if f.Type.Kind() == reflect.Func {
				m[f.Name] = f.Type.NumIn() - 1
			}
		}
		l.Entries[gqlType] = m
	}
	for name, def := range c14Gen.u.Schema.Types {
		if def.Kind != ast.Object || strings.HasPrefix(name, "__") {
			continue
		}
		for _, f := range def.Fields {
			if !strings.HasPrefix(f.Name, "__") {
				l.Order[name] = append(l.Order[name], f.Name)
			}
		}
	}
	for k, v := range c14Gen.u.Res {
		l.Res[k] = v
	}
	return l
}

func init() {
	RegisterCmd("c14", func(p *Probe, line []byte) any {
		var c C14Case
		if err := json.Unmarshal(line, &c); err != nil {
			return &C14Result{Err: "bad command: " + err.Error()}
		}
		if c14Gen.mk == nil {
			return &C14Result{ID: c.ID, Err: "probe has no C14Register"}
		}
		if c.Layout {
			return &C14Result{ID: c.ID, Layout: c14Layout(), Runs: []C14Run{}, Calcs: []int64{}}
		}
		if miss := c14Install(c.Costs); len(miss) > 0 {
			return &C14Result{ID: c.ID, Err: "no ComplexityRoot function for " + strings.Join(miss, ",")}
		}
		return C14Exec(c14Gen.mk(), &c)
	})
}
