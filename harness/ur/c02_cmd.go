package ur

// C02 (resolvers receive arguments exactly as input coercion defines): probe
// protocol command "c02". One command carries a batch of concretised cases
// printed by spec/Coerce.tla; each is executed through the REAL executor of the
// generated server (executor.CreateOperationContext -> validation +
// validator.VariableValues, then DispatchOperation -> generated field_*_args /
// unmarshalInput* / scalar unmarshalers), and the observation is what the
// universal resolver received (Start event args), or where the error went.
//
// Variables are decoded from their JSON text the way every gqlgen transport
// does (json.Decoder.UseNumber => json.Number), or - carrier "f64" - with the
// standard decoder (float64), which is what a programmatic caller that used
// encoding/json hands to the executor.

import (
	"bytes"
	"context"
	"encoding/json"
	"fmt"
	"reflect"
	"strings"
	"time"

	"github.com/99designs/gqlgen/graphql"
	"github.com/99designs/gqlgen/graphql/executor"
)

type C02Case struct {
	ID      int    `json:"id"`
	Query   string `json:"query"`
	Vars    string `json:"vars"`    // JSON object text ("" = no variables)
	Carrier string `json:"carrier"` // "" json.Number | "f64" float64
	Field   string `json:"field"`   // response key of the probed field
}

type C02Batch struct {
	Cmd   string    `json:"cmd"`
	Cases []C02Case `json:"cases"`
}

type C02Err struct {
	P string `json:"p"` // path, dotted
	M string `json:"m"`
}

// C02Dir is one invocation of the schema directive @dflt: the site tag it was applied with and the
// canonical form of the other arguments it received, in declaration order.
type C02Dir struct {
	Tag  string `json:"tag"`
	Path string `json:"path"`
	Args string `json:"args"`
}

type C02Obs struct {
	ID     int      `json:"id"`
	Called int      `json:"called"` // Start events of the probed field
	Args   string   `json:"args"`   // canonical form of the received argument values
	Others int      `json:"others"` // Start events of other fields (must be 0)
	Gate   []C02Err `json:"gate"`   // errors of CreateOperationContext (validation / variable coercion): nothing executes
	Errs   []C02Err `json:"errs"`   // errors of the executed response
	Panic  string   `json:"panic,omitempty"`
	Recov  []string `json:"recov,omitempty"` // panics recovered by gqlgen (RecoverFunc)
	Hung   bool     `json:"hung,omitempty"`
	Dirs   []C02Dir `json:"dirs,omitempty"` // invocations of @dflt
}

type C02Result struct {
	Obs []C02Obs `json:"obs"`
	Err string   `json:"error,omitempty"`
}

func c02Exec(p *Probe, c *C02Case) (obs C02Obs) {
	obs = C02Obs{ID: c.ID, Gate: []C02Err{}, Errs: []C02Err{}}
	var vars map[string]any
	if c.Vars != "" {
		dec := json.NewDecoder(bytes.NewReader([]byte(c.Vars)))
		if c.Carrier != "f64" {
			dec.UseNumber()
		}
		if err := dec.Decode(&vars); err != nil {
			obs.Panic = "harness: bad vars: " + err.Error()
			return obs
		}
	}
	run := NewRun()
	ex := executor.New(p.ES)
	ex.SetRecoverFunc(RecoverFunc)
	ex.SetErrorPresenter(ErrorPresenter)
	base, cancel := context.WithCancel(WithRun(context.Background(), run))
	defer cancel()
	done := make(chan struct{})
	go func() {
		defer close(done)
		defer func() {
			if r := recover(); r != nil {
				obs.Panic = fmt.Sprintf("escaped panic: %v", r)
			}
		}()
		ctx := graphql.StartOperationTrace(base)
		opCtx, errs := ex.CreateOperationContext(ctx, &graphql.RawParams{Query: c.Query, Variables: vars})
		if errs != nil {
			for _, e := range errs {
				obs.Gate = append(obs.Gate, C02Err{P: PathKey(e.Path), M: e.Message})
			}
			return
		}
		rh, ctx2 := ex.DispatchOperation(ctx, opCtx)
		for {
			r := rh(ctx2)
			if r == nil {
				break
			}
			for _, e := range r.Errors {
				obs.Errs = append(obs.Errs, C02Err{P: PathKey(e.Path), M: e.Message})
			}
		}
	}()
	select {
	case <-done:
	case <-time.After(10 * time.Second):
		obs.Hung = true
		return obs
	}
	run.Finish()
	for _, ev := range run.Events() {
		switch ev.E {
		case "Start":
			if ev.P == c.Field {
				obs.Called++
				obs.Args = ev.A
			} else {
				obs.Others++
			}
		case "Recover":
			obs.Recov = append(obs.Recov, ev.T)
		case "Dir":
			if strings.HasPrefix(ev.A, c02DfltPrefix) {
				obs.Dirs = append(obs.Dirs, C02Dir{Tag: ev.T, Path: ev.P, Args: ev.A[len(c02DfltPrefix):]})
			}
		}
	}
	return obs
}

// CanonAddr is Canon for values that need not be addressable (a struct passed
// by value to a resolver): Canon takes the address of Omittable fields.
func CanonAddr(v reflect.Value) string {
	if v.IsValid() && !v.CanAddr() {
		p := reflect.New(v.Type())
		p.Elem().Set(v)
		v = p.Elem()
	}
	return Canon(v)
}

// C02FillStub installs in every resolver of the stub a function that logs a
// Start event carrying the canonical form of the argument values it received
// and returns the zero value (the args probe has argument-carrying fields on
// Query only).
func (u *Universe) C02FillStub(stub any) {
	sv := reflect.ValueOf(stub).Elem()
	st := sv.Type()
	for i := 0; i < st.NumField(); i++ {
		grp := st.Field(i)
		if grp.Type.Kind() != reflect.Struct || !strings.HasSuffix(grp.Name, "Resolver") {
			continue
		}
		gv := sv.Field(i)
		for j := 0; j < grp.Type.NumField(); j++ {
			f := grp.Type.Field(j)
			if f.Type.Kind() != reflect.Func {
				continue
			}
			ft := f.Type
			gv.Field(j).Set(reflect.MakeFunc(ft, func(in []reflect.Value) []reflect.Value {
				ctx := in[0].Interface().(context.Context)
				out := []reflect.Value{reflect.Zero(ft.Out(0)), reflect.Zero(errType)}
				run := RunFrom(ctx)
				if run == nil {
					return out
				}
				parts := make([]string, 0, len(in)-1)
				for _, a := range in[1:] {
					parts = append(parts, CanonAddr(a))
				}
				run.Log(Event{E: "Start", P: PathKey(graphql.GetFieldContext(ctx).Path()), A: strings.Join(parts, ",")})
				return out
			}))
		}
	}
}

const c02DfltPrefix = "dflt:"

// C02FillDirectives replaces the implementation of the directive @dflt(tag, v, w, z, k) in a
// DirectiveRoot (after FillDirectives): it logs a Dir event with the canonical form of the argument
// values the generated code handed to it and passes the value through.
func (u *Universe) C02FillDirectives(root any) {
	rv := reflect.ValueOf(root).Elem()
	f := rv.FieldByName("Dflt")
	if !f.IsValid() || f.Kind() != reflect.Func {
		panic("c02: the generated DirectiveRoot has no Dflt")
	}
	ft := f.Type()
	f.Set(reflect.MakeFunc(ft, func(in []reflect.Value) []reflect.Value {
		ctx := in[0].Interface().(context.Context)
		next := in[2].Interface().(graphql.Resolver)
		tag := ""
		if len(in) > 3 && in[3].Kind() == reflect.Ptr && !in[3].IsNil() {
			tag = in[3].Elem().String()
		}
		if run := RunFrom(ctx); run != nil {
			parts := make([]string, 0, len(in))
			for _, a := range in[min(4, len(in)):] {
				parts = append(parts, CanonAddr(a))
			}
			run.Log(Event{E: "Dir", P: PathKey(graphql.GetPath(ctx)), T: tag, A: c02DfltPrefix + "[" + strings.Join(parts, ",") + "]"})
		}
		res, err := next(ctx)
		out := []reflect.Value{reflect.Zero(ft.Out(0)), reflect.Zero(errType)}
		if res != nil {
			out[0] = reflect.ValueOf(&res).Elem()
		}
		if err != nil {
			out[1] = reflect.ValueOf(err).Convert(errType)
		}
		return out
	}))
}

func init() {
	RegisterCmd("c02", func(p *Probe, line []byte) any {
		var b C02Batch
		if err := json.Unmarshal(line, &b); err != nil {
			return &C02Result{Err: "bad command: " + err.Error()}
		}
		res := &C02Result{Obs: make([]C02Obs, 0, len(b.Cases))}
		for i := range b.Cases {
			res.Obs = append(res.Obs, c02Exec(p, &b.Cases[i]))
		}
		return res
	})
}
