// c12srv is the server side of check C12. The driver (cmd/c12) builds it with
// `go build -race` and runs it as a child process: real handler.Server
// instances with the REAL transport.SSE / transport.MultipartMixed behind a
// real net/http server, over a hand-written graphql.ExecutableSchema whose
// response handler produces payloads on a schedule given by the request
// (delays measured inside this process, or gates released over /ctl/release).
//
//	POST /g/sse/<keepAliveNanos>   GraphQL endpoint, transport.SSE{KeepAlivePingInterval}
//	POST /g/mm/<deliveryNanos>     GraphQL endpoint, transport.MultipartMixed{Boundary, DeliveryTimeout}
//	POST /h/sse/<keepAliveNanos>   the same through the gate writer of gate.go (Mechanism A)
//	GET  /ctl/state?id=            what the server saw of scenario id (+ live transport goroutines)
//	POST /ctl/release?id=          open the next gate of scenario id
//
// The scenario travels in the X-Verif-Scn request header (JSON).
package main

import (
	"context"
	"encoding/json"
	"errors"
	"fmt"
	"io"
	"log"
	"net"
	"net/http"
	"os"
	"runtime"
	"strconv"
	"strings"
	"sync"
	"sync/atomic"
	"time"

	"github.com/vektah/gqlparser/v2"
	"github.com/vektah/gqlparser/v2/ast"
	"github.com/vektah/gqlparser/v2/gqlerror"

	"github.com/99designs/gqlgen/graphql"
	"github.com/99designs/gqlgen/graphql/handler"
	"github.com/99designs/gqlgen/graphql/handler/transport"
)

// Scn is the production schedule of one stream.
type Scn struct {
	ID string `json:"id"`
	// number of payloads after the first one for mm (incremental payloads);
	// number of `next` events for sse
	N int `json:"n"`
	// pad bytes of each payload; mm: index 0 is the initial payload
	Sizes []int `json:"sizes"`
	// nanoseconds to wait before returning payload i (same indexing as
	// Sizes), measured from the return of the previous one; -1 = wait for a
	// /ctl/release
	DelaysNs []int64 `json:"delays_ns"`
	// nanoseconds to wait before ending the sequence (returning nil); -1 = gate
	EndDelayNs int64 `json:"end_delay_ns"`
	// /h/ endpoints only: which call the gate writer holds open (see gate.go)
	Hold string `json:"hold"`
	// FailAt > 0: the FailAt-th payload this stream produces (1-based, in production order; mm: 1 is
	// the initial payload) cannot be serialized. FailMode "raw": Response.Data holds bytes that are not
	// JSON (what a custom scalar marshaller that writes garbage produces); "ext": an extension value
	// whose MarshalJSON returns an error.
	FailAt   int    `json:"fail_at"`
	FailMode string `json:"fail_mode"`
	// SERVER-SIDE cancellation of the request context while the client stays connected (round 4).
	// CancelMode "cancel": a middleware wraps the request context in context.WithCancel around the real
	// handler.Server; the response source calls the cancel function inside its call number CancelAt + 1,
	// i.e. after it has produced CancelAt payloads (0 = before the first one, total = after the last one).
	// "timeout": context.WithTimeout(CancelNs) instead; the source blocks in that call until the deadline
	// has fired. From then on the source IGNORES the context: it produces its remaining payloads on
	// schedule (an operation may well answer after its context is done). "" = no such middleware.
	CancelMode string `json:"cancel_mode"`
	CancelAt   int    `json:"cancel_at"`
	CancelNs   int64  `json:"cancel_ns"`
}

// unencodable is an extension value json.Marshal cannot encode.
type unencodable struct{}

func (unencodable) MarshalJSON() ([]byte, error) {
	return nil, errors.New("verif: this extension value cannot be marshalled")
}

// spoil makes resp the payload whose serialization fails. ctx is the response context: the
// executor fills Response.Extensions from what was registered there.
func spoil(ctx context.Context, resp *graphql.Response, mode string) {
	if mode == "ext" {
		graphql.RegisterExtension(ctx, "verif", unencodable{})
		return
	}
	d := append(json.RawMessage{}, resp.Data...)
	resp.Data = d[:len(d)-2] // `{"n":1,"pad":"1a1b` - the string and the object are never closed
}

type rec struct {
	mu       sync.Mutex
	scn      Scn
	produced []int
	entered  bool
	returned bool
	gate     chan struct{}
	obs      *gateObs
	// server-side cancellation: the middleware's cancel function; the source call (= number of payloads
	// produced before it) in which the context was first found / made done, -1 = never
	cancel     context.CancelFunc
	cancelSeen int
}

type scnKey struct{}

const mmBoundary = "verif"

var (
	recs    sync.Map // id -> *rec
	active  atomic.Int64
	schema  = gqlparser.MustLoadSchema(&ast.Source{Input: "type Query { q: String }\ntype Subscription { s: String }\n"})
	servers sync.Map // "sse/123" -> http.Handler
)

func pad(id, size int) string {
	// deterministic, JSON-safe filler that makes a misplaced byte visible
	var sb strings.Builder
	sb.Grow(size)
	for i := 0; sb.Len() < size; i++ {
		sb.WriteString(strconv.Itoa(id))
		sb.WriteByte("abcdefghijklmnopqrstuvwxyz"[i%26])
	}
	return sb.String()[:size]
}

func payloadData(id, size int) json.RawMessage {
	b, _ := json.Marshal(map[string]any{"n": id, "pad": pad(id, size)})
	return b
}

// wait blocks for d nanoseconds (or for a gate when d < 0); false when the
// context ended first.
func wait(ctx context.Context, r *rec, d int64) bool {
	if d < 0 {
		select {
		case <-r.gate:
			return true
		case <-ctx.Done():
			return false
		}
	}
	if d == 0 {
		return ctx.Err() == nil
	}
	deadline := time.Now().Add(time.Duration(d))
	if d > int64(300*time.Microsecond) {
		t := time.NewTimer(time.Duration(d) - 150*time.Microsecond)
		select {
		case <-t.C:
		case <-ctx.Done():
			t.Stop()
			return false
		}
	}
	for time.Now().Before(deadline) {
		if ctx.Err() != nil {
			return false
		}
		runtime.Gosched()
	}
	return true
}

func exec(ctx context.Context) graphql.ResponseHandler {
	r, _ := ctx.Value(scnKey{}).(*rec)
	if r == nil {
		return graphql.OneShot(&graphql.Response{Data: []byte(`{"q":null}`)})
	}
	opCtx := graphql.GetOperationContext(ctx)
	sub := opCtx.Operation.Operation == ast.Subscription
	i := 0
	total := r.scn.N
	if !sub {
		total = r.scn.N + 1
	}
	at := func(xs []int64, i int) int64 {
		if i < len(xs) {
			return xs[i]
		}
		return 0
	}
	size := func(i int) int {
		if i < len(r.scn.Sizes) {
			return r.scn.Sizes[i]
		}
		return 8
	}
	return func(ctx context.Context) *graphql.Response {
		if r.scn.CancelMode != "" {
			// the operation's view of a server-side cancellation: it notices (or causes) it at the start of one
			// of its calls and goes on producing what it has to say - the waits below no longer look at ctx
			r.mu.Lock()
			seen, cancel := r.cancelSeen, r.cancel
			r.mu.Unlock()
			if seen < 0 {
				if i == r.scn.CancelAt {
					if r.scn.CancelMode == "cancel" && cancel != nil {
						cancel()
					}
					<-ctx.Done() // "timeout": the deadline of the middleware's context.WithTimeout
				}
				if ctx.Err() != nil {
					r.mu.Lock()
					r.cancelSeen = i
					r.mu.Unlock()
				}
			}
			ctx = context.WithoutCancel(ctx)
		}
		if i >= total {
			wait(ctx, r, r.scn.EndDelayNs)
			return nil
		}
		if !wait(ctx, r, at(r.scn.DelaysNs, i)) {
			return nil
		}
		k := i
		i++
		var resp *graphql.Response
		if sub {
			id := k + 1
			resp = &graphql.Response{Data: payloadData(id, size(k))}
			if r.scn.FailAt == id {
				spoil(ctx, resp, r.scn.FailMode)
			}
			r.mu.Lock()
			r.produced = append(r.produced, id)
			r.mu.Unlock()
			return resp
		}
		hn := k < r.scn.N
		resp = &graphql.Response{Data: payloadData(k, size(k)), HasNext: &hn}
		if k > 0 {
			resp.Path = ast.Path{ast.PathName("q"), ast.PathIndex(k)}
			resp.Label = "L" + strconv.Itoa(k)
		}
		if r.scn.FailAt == k+1 {
			spoil(ctx, resp, r.scn.FailMode)
		}
		r.mu.Lock()
		r.produced = append(r.produced, k)
		r.mu.Unlock()
		return resp
	}
}

func gqlServer(kind string, ns int64) http.Handler {
	key := kind + "/" + strconv.FormatInt(ns, 10)
	if h, ok := servers.Load(key); ok {
		return h.(http.Handler)
	}
	srv := handler.New(&graphql.ExecutableSchemaMock{
		SchemaFunc: func() *ast.Schema { return schema },
		ComplexityFunc: func(ctx context.Context, typeName, fieldName string, childComplexity int, args map[string]any) (int, bool) {
			return 1, true
		},
		ExecFunc: exec,
	})
	// what handler.Server does with a panic it recovers is the default (the message of the error it
	// writes is DefaultRecover's); only the stack dump on stderr is left out, so that the stderr of
	// a child that really dies shows that panic and nothing else
	srv.SetRecoverFunc(func(ctx context.Context, err any) error { return gqlerror.Errorf("internal system error") })
	switch kind {
	case "sse":
		srv.AddTransport(transport.SSE{KeepAlivePingInterval: time.Duration(ns)})
	case "mm":
		srv.AddTransport(transport.MultipartMixed{Boundary: mmBoundary, DeliveryTimeout: time.Duration(ns)})
	}
	h, _ := servers.LoadOrStore(key, http.Handler(srv))
	return h.(http.Handler)
}

// transportGoroutines counts goroutines that are inside the streaming
// transports (keep-alive writer, aggregator ticker, the handlers themselves).
func transportGoroutines() (int, string) {
	n, which, _ := transportStacks()
	return n, which
}

func transportStacks() (int, string, string) {
	buf := make([]byte, 1<<20)
	buf = buf[:runtime.Stack(buf, true)]
	n := 0
	var which, stacks []string
	for _, g := range strings.Split(string(buf), "\n\n") {
		before := n
		switch {
		case strings.Contains(g, "(*sseConnection).keepAlive"):
			n++
			which = append(which, "sse.keepAlive")
		case strings.Contains(g, "newMultipartResponseAggregator.func1"):
			n++
			which = append(which, "mm.ticker")
		case strings.Contains(g, "transport.SSE.Do"):
			n++
			which = append(which, "SSE.Do")
		case strings.Contains(g, "transport.MultipartMixed.Do"):
			n++
			which = append(which, "MultipartMixed.Do")
		}
		if n > before {
			stacks = append(stacks, g)
		}
	}
	return n, strings.Join(which, ","), strings.Join(stacks, "\n\n")
}

func main() {
	log.SetOutput(io.Discard)
	mux := http.NewServeMux()
	serve := func(w http.ResponseWriter, req *http.Request) {
		gated := strings.HasPrefix(req.URL.Path, "/h/")
		parts := strings.Split(req.URL.Path[3:], "/")
		if len(parts) != 2 {
			http.Error(w, "bad path", 404)
			return
		}
		ns, err := strconv.ParseInt(parts[1], 10, 64)
		if err != nil {
			http.Error(w, "bad interval", 400)
			return
		}
		var r *rec
		if h := req.Header.Get("X-Verif-Scn"); h != "" {
			r = &rec{gate: make(chan struct{}, 64), cancelSeen: -1}
			if err := json.Unmarshal([]byte(h), &r.scn); err != nil {
				http.Error(w, "bad scenario", 400)
				return
			}
			if old, loaded := recs.LoadOrStore(r.scn.ID, r); loaded {
				// the driver may create the record first (to release gates early)
				r = old.(*rec)
				_ = json.Unmarshal([]byte(h), &r.scn)
			}
			r.mu.Lock()
			r.entered = true
			r.mu.Unlock()
			req = req.WithContext(context.WithValue(req.Context(), scnKey{}, r))
			if r.scn.CancelMode != "" {
				// the cancelling middleware: user code around the real handler.Server; the client stays connected
				var ctx context.Context
				var cancel context.CancelFunc
				if r.scn.CancelMode == "timeout" {
					ctx, cancel = context.WithTimeout(req.Context(), time.Duration(r.scn.CancelNs))
				} else {
					ctx, cancel = context.WithCancel(req.Context())
				}
				defer cancel()
				r.mu.Lock()
				r.cancel = cancel
				r.mu.Unlock()
				req = req.WithContext(ctx)
			}
		}
		active.Add(1)
		defer func() {
			active.Add(-1)
			if r != nil {
				r.mu.Lock()
				r.returned = true
				r.mu.Unlock()
			}
		}()
		if gated && r != nil {
			obs := serveGated(w, req, gqlServer(parts[0], ns), r.scn.Hold, time.Duration(ns))
			r.mu.Lock()
			r.obs = &obs
			r.mu.Unlock()
			return
		}
		gqlServer(parts[0], ns).ServeHTTP(w, req)
	}
	mux.HandleFunc("/g/", serve)
	mux.HandleFunc("/h/", serve)
	mux.HandleFunc("/ctl/state", func(w http.ResponseWriter, req *http.Request) {
		out := map[string]any{"active": active.Load(), "found": false, "produced": []int{}, "entered": false, "returned": false, "cancel_seen": -1}
		if v, ok := recs.Load(req.URL.Query().Get("id")); ok {
			r := v.(*rec)
			r.mu.Lock()
			out["found"], out["entered"], out["returned"] = true, r.entered, r.returned
			out["produced"] = append([]int{}, r.produced...)
			out["cancel_seen"] = r.cancelSeen
			if r.obs != nil {
				out["gate"] = r.obs
			}
			r.mu.Unlock()
		}
		n, which, stacks := transportStacks()
		out["tg"], out["tg_which"] = n, which
		if req.URL.Query().Get("stacks") != "" {
			out["tg_stacks"] = stacks
		}
		_ = json.NewEncoder(w).Encode(out)
	})
	mux.HandleFunc("/ctl/release", func(w http.ResponseWriter, req *http.Request) {
		id := req.URL.Query().Get("id")
		v, _ := recs.LoadOrStore(id, &rec{gate: make(chan struct{}, 64), scn: Scn{ID: id}, cancelSeen: -1})
		select {
		case v.(*rec).gate <- struct{}{}:
		default:
		}
		fmt.Fprint(w, "ok")
	})
	mux.HandleFunc("/ctl/forget", func(w http.ResponseWriter, req *http.Request) {
		recs.Delete(req.URL.Query().Get("id"))
		fmt.Fprint(w, "ok")
	})
	ln, err := net.Listen("tcp", "127.0.0.1:0")
	if err != nil {
		fmt.Fprintln(os.Stderr, err)
		os.Exit(3)
	}
	fmt.Printf("LISTEN %s\n", ln.Addr().String())
	s := &http.Server{Handler: mux, ErrorLog: log.New(io.Discard, "", 0)}
	go func() {
		// the driver closes our stdin when it is done with us
		_, _ = io.Copy(io.Discard, os.Stdin)
		os.Exit(0)
	}()
	_ = s.Serve(ln)
}
