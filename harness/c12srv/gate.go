package main

// Mechanism A gates. The http.ResponseWriter a transport writes to is USER
// code, so the schedules of TLC's counterexamples for the pinned sse.go can
// be forced without any hook inside gqlgen: the wrapper below sits between
// the transport and net/http, sees every Write / Flush call enter and leave,
// and can hold one call open until another goroutine's call arrives.
//
//	POST /h/sse/<keepAliveNanos>   same as /g/sse/... but through the gate writer;
//	                               the scenario's "hold" says what to force:
//	  "next:<k>"   hold the Write of `event: next` number k open until a Write of
//	               ": ping" ENTERS (the model's MWriteBegin, Tick, KPingBegin) or
//	               until 4 intervals + 100 ms have passed
//	  "complete"   the same for the Write of `event: complete`
//	  "return"     after the transport's Do returned, do not return to net/http
//	               for 3 intervals + 50 ms (finishRequest is held back) and record
//	               every Write / Flush that still arrives (the model's Tick,
//	               KPingBegin after `returned`)
//
//	"flush:pre" | "flush:next:<k>" | "flush:complete"   (SLOW FLUSH, for designs that lock)
//	               the Flush that follows that write stays open for holdFlush (4 ms):
//	               with a ping interval of tens of microseconds a keep-alive tick is
//	               certainly parked on the connection mutex when the critical section
//	               of that write ends - whatever the transport lets it do then happens
//	               deterministically (a ping after `complete` if `closed` is set in a
//	               later critical section)
//	               Several holds may be given, separated by commas. The decisive pair is
//	               "flush:next:<n>,flush:complete" in a server running on ONE processor
//	               (GOMAXPROCS=1): keepAlive parks on mu during the slow flush of the last
//	               event (> 1 ms, sync.Mutex's starvation threshold); the handler's Unlock
//	               readies it but the handler keeps the processor, takes mu again for
//	               `complete` and blocks in ITS slow flush; keepAlive now wakes, finds mu
//	               locked after waiting > 1 ms and switches the mutex to starvation mode, so
//	               the Unlock that ends the `complete` section hands mu DIRECTLY to keepAlive,
//	               before the handler's deferred close() can take it. The model's schedule
//	               (Tick during `complete`, KPingBegin right after its MFlushEnd, then MClose)
//	               is thereby forced, not hoped for.
//	"flush:close" | "flush:n:<j>"   multipart/mixed (/h/mm/...): the Flush after the write
//	               of the closing delimiter / the j-th Flush call stays open for 4 ms, so
//	               the other flusher (ticker goroutine or Done) is parked on the aggregator
//	               mutex behind it
//
// Every gated run also records the kinds of Write calls that entered after a
// `complete` / closing-delimiter Write had entered (after_final).
//
// The underlying writes are serialised by the wrapper's own mutex, and calls
// arriving after Do returned are not forwarded, so forcing the schedule
// neither corrupts the bytes nor crashes the process; what is observed is the
// call pattern itself.

import (
	"net/http"
	"strings"
	"sync"
	"time"
)

type gateObs struct {
	Overlaps    []string `json:"overlaps"`     // "<kind in progress>|<kind entering>"
	AfterReturn []string `json:"after_return"` // kinds of calls that entered after Do had returned
	AfterHold   []string `json:"after_hold"`   // per held Flush: kind of the next Write that entered and how long after the hold ended, e.g. "ping@35us"
	AfterFinal  []string `json:"after_final"`  // kinds of Write calls that entered after the Write of `complete` / of the closing delimiter
	Held        bool     `json:"held"`         // the targeted call was reached and held
	Met         bool     `json:"met"`          // ... and another goroutine's write entered while it was held
}

type gateWriter struct {
	http.ResponseWriter
	fl       http.Flusher
	hold     string
	interval time.Duration

	mu       sync.Mutex // protects the fields below
	inflight map[string]int
	nexts    int
	flushes  int
	last     string    // kind (and number) of the last Write that entered
	final    bool      // a `complete` / closing delimiter Write has entered
	holdEnd  time.Time // end of the last held Flush not yet followed by a Write
	returned bool
	obs      gateObs
	arrived  chan string // kinds of calls entering, for the holder

	wmu sync.Mutex // serialises the forwarded calls
}

func kindOf(p []byte) string {
	s := string(p)
	switch {
	case strings.HasPrefix(s, "event: next"):
		return "next"
	case strings.HasPrefix(s, ": ping"):
		return "ping"
	case strings.HasPrefix(s, "event: complete"):
		return "complete"
	case s == ":\n\n":
		return "pre"
	case s == "--"+mmBoundary+"--\r\n":
		return "close"
	case s == "--"+mmBoundary+"\r\n":
		return "bnd"
	case strings.HasPrefix(s, "Content-Type:"):
		return "hdr"
	case s == "\r\n":
		return "crlf"
	case strings.HasPrefix(s, "{"):
		return "json"
	}
	return "other"
}

// enter records a call; it returns whether the call may be forwarded.
func (g *gateWriter) enter(kind string) (forward bool, holdIt bool) {
	g.mu.Lock()
	defer g.mu.Unlock()
	if g.returned {
		g.obs.AfterReturn = append(g.obs.AfterReturn, kind)
		return false, false
	}
	for k, n := range g.inflight {
		if n > 0 {
			g.obs.Overlaps = append(g.obs.Overlaps, k+"|"+kind)
		}
	}
	g.inflight[kind]++
	select {
	case g.arrived <- kind:
	default:
	}
	if kind == "next" {
		g.nexts++
	}
	if kind == "flush" {
		g.flushes++
		if g.holds("flush:"+g.last) || g.holds("flush:n:"+itoa(g.flushes)) {
			g.obs.Held = true
			return true, true
		}
		return true, false
	}
	if !g.holdEnd.IsZero() {
		g.obs.AfterHold = append(g.obs.AfterHold, kind+"@"+time.Since(g.holdEnd).Round(time.Microsecond).String())
		g.holdEnd = time.Time{}
	}
	if g.final {
		g.obs.AfterFinal = append(g.obs.AfterFinal, kind)
	}
	if kind == "complete" || kind == "close" {
		g.final = true
	}
	g.last = kind
	if kind == "next" {
		g.last = "next:" + itoa(g.nexts)
	}
	switch {
	case kind == "next" && g.holds("next:"+itoa(g.nexts)), kind == "complete" && g.holds("complete"):
		g.obs.Held = true
		// forget arrivals from before the hold
		for len(g.arrived) > 0 {
			<-g.arrived
		}
		return true, true
	}
	return true, false
}

func (g *gateWriter) holds(what string) bool {
	for _, h := range strings.Split(g.hold, ",") {
		if h == what {
			return true
		}
	}
	return false
}

func itoa(i int) string {
	return string(rune('0' + i))
}

func (g *gateWriter) leave(kind string) {
	g.mu.Lock()
	g.inflight[kind]--
	g.mu.Unlock()
}

func (g *gateWriter) waitForOther() {
	deadline := time.After(4*g.interval + 100*time.Millisecond)
	for {
		select {
		case k := <-g.arrived:
			if k == "ping" || k == "flush" {
				g.mu.Lock()
				g.obs.Met = true
				g.mu.Unlock()
				// let the other call get well inside before this one goes on
				time.Sleep(200 * time.Microsecond)
				return
			}
		case <-deadline:
			return
		}
	}
}

func (g *gateWriter) Write(p []byte) (int, error) {
	kind := kindOf(p)
	fwd, hold := g.enter(kind)
	if !fwd {
		return len(p), nil
	}
	defer g.leave(kind)
	if hold {
		g.waitForOther()
	}
	g.wmu.Lock()
	defer g.wmu.Unlock()
	return g.ResponseWriter.Write(p)
}

const holdFlush = 4 * time.Millisecond

func (g *gateWriter) Flush() {
	fwd, hold := g.enter("flush")
	if !fwd {
		return
	}
	defer g.leave("flush")
	g.wmu.Lock()
	g.fl.Flush()
	g.wmu.Unlock()
	if hold {
		// a slow client: the flush returns late, the caller's critical section stays open
		time.Sleep(holdFlush)
		g.mu.Lock()
		g.holdEnd = time.Now()
		g.mu.Unlock()
	}
}

// serveGated runs h with the gate writer and applies the "return" hold.
func serveGated(w http.ResponseWriter, req *http.Request, h http.Handler, hold string, interval time.Duration) gateObs {
	fl, _ := w.(http.Flusher)
	g := &gateWriter{ResponseWriter: w, fl: fl, hold: hold, interval: interval, inflight: map[string]int{}, arrived: make(chan string, 256)}
	h.ServeHTTP(g, req)
	if g.holds("return") {
		// Do has returned; net/http has not been told yet
		g.mu.Lock()
		g.returned = true
		g.mu.Unlock()
		time.Sleep(3*interval + 50*time.Millisecond)
	}
	g.mu.Lock()
	g.returned = true
	obs := g.obs
	g.mu.Unlock()
	if obs.Overlaps == nil {
		obs.Overlaps = []string{}
	}
	if obs.AfterReturn == nil {
		obs.AfterReturn = []string{}
	}
	if obs.AfterHold == nil {
		obs.AfterHold = []string{}
	}
	if obs.AfterFinal == nil {
		obs.AfterFinal = []string{}
	}
	return obs
}
