import subprocess, sys, re
WT='/tmp/wt-c15'
APQ=WT+'/graphql/handler/extension/apq.go'
LRU=WT+'/graphql/handler/lru/lru.go'
EXE=WT+'/graphql/executor/executor.go'
CMP='''		if computeQueryHash(rawParams.Query) != extension.Sha256 {
			return gqlerror.Errorf("provided APQ hash does not match query")
		}
		a.Cache.Add(ctx, extension.Sha256, rawParams.Query)
'''
VER='''	if extension.Version != 1 {
		return gqlerror.Errorf("unsupported APQ version")
	}
'''
muts = {
 'M1-store-before-compare': (APQ, CMP, '''		a.Cache.Add(ctx, extension.Sha256, rawParams.Query)
		if computeQueryHash(rawParams.Query) != extension.Sha256 {
			return gqlerror.Errorf("provided APQ hash does not match query")
		}
'''),
 'M2a-compare-prefix': (APQ, 'if computeQueryHash(rawParams.Query) != extension.Sha256 {', 'if !strings.HasPrefix(computeQueryHash(rawParams.Query), extension.Sha256) {'),
 'M2b-compare-casefold': (APQ, 'if computeQueryHash(rawParams.Query) != extension.Sha256 {', 'if !strings.EqualFold(computeQueryHash(rawParams.Query), extension.Sha256) {'),
 'M2c-compare-hash-with-itself': (APQ, 'if computeQueryHash(rawParams.Query) != extension.Sha256 {', 'if h := computeQueryHash(rawParams.Query); h != h {'),
 'M3a-skip-version-check': (APQ, VER, ''),
 'M3b-version-gt-1': (APQ, 'extension.Version != 1', 'extension.Version > 1'),
 'M4-lookup-when-text-present': (APQ, '''	if rawParams.Query == "" {
		var ok bool
		// client sent optimistic query hash without query string, get it from the cache
		rawParams.Query, ok = a.Cache.Get(ctx, extension.Sha256)
		if !ok {''', '''	if cached, hit := a.Cache.Get(ctx, extension.Sha256); hit || rawParams.Query == "" {
		ok := hit
		rawParams.Query = cached
		if !ok {'''),
 'M5-register-on-mismatch': (APQ, '''		if computeQueryHash(rawParams.Query) != extension.Sha256 {
			return gqlerror.Errorf''', '''		if computeQueryHash(rawParams.Query) != extension.Sha256 {
			a.Cache.Add(ctx, extension.Sha256, rawParams.Query)
			return gqlerror.Errorf'''),
 'M6-miss-not-answered-notfound': (APQ, '''			err := gqlerror.Errorf(errPersistedQueryNotFound)
			errcode.Set(err, errPersistedQueryNotFoundCode)
			return err''', '''			err := gqlerror.Errorf(errPersistedQueryNotFound)
			errcode.Set(err, errPersistedQueryNotFoundCode)
			return nil'''),
 'M7-lru-get-does-not-refresh': (LRU, 'return l.lru.Get(key)', 'return l.lru.Peek(key)'),
 'M8-store-under-computed-hash-of-trimmed-text': (APQ, 'a.Cache.Add(ctx, extension.Sha256, rawParams.Query)', 'a.Cache.Add(ctx, extension.Sha256, strings.TrimSpace(rawParams.Query))'),
 'M9-executor-rawquery-before-mutators': (EXE, '''	for _, p := range e.ext.operationParameterMutators {
		if err := p.MutateOperationParameters(ctx, params); err != nil {
			return opCtx, gqlerror.List{err}
		}
	}

	opCtx.RawQuery = params.Query
''', '''	opCtx.RawQuery = params.Query
	for _, p := range e.ext.operationParameterMutators {
		if err := p.MutateOperationParameters(ctx, params); err != nil {
			return opCtx, gqlerror.List{err}
		}
	}

'''),
 'M10-empty-query-test-trims': (APQ, 'if rawParams.Query == "" {', 'if strings.TrimSpace(rawParams.Query) == "" {'),
 'M11-lru-add-only-if-absent': (LRU, 'l.lru.Add(key, value)', 'l.lru.ContainsOrAdd(key, value)'),
}
muts.update({
 'M12-hash-of-trimmed-text': (APQ, 'b := sha256.Sum256([]byte(query))', 'b := sha256.Sum256([]byte(strings.TrimSpace(query)))'),
 'M14-lookup-lowercases-hash': (APQ, 'rawParams.Query, ok = a.Cache.Get(ctx, extension.Sha256)', 'rawParams.Query, ok = a.Cache.Get(ctx, strings.ToLower(extension.Sha256))'),
 'M15-lru-capacity-plus-one': (LRU, 'lru.New[string, T](size)', 'lru.New[string, T](size + 1)'),
 'M16-mapcache-add-keeps-first': (WT+'/graphql/cache.go', 'func (m MapCache[T]) Add(_ context.Context, key string, value T) { m[key] = value }', 'func (m MapCache[T]) Add(_ context.Context, key string, value T) {\n\tif len(m) < 2 {\n\t\tm[key] = value\n\t}\n}'),
})
sel = sys.argv[2:] or list(muts)
tier = sys.argv[1]
for name in sel:
    f, old, new = muts[name]
    subprocess.run(['git','-C',WT,'checkout','--','.'],check=True)
    s = open(f).read()
    assert old in s, name
    s = s.replace(old, new, 1)
    if 'strings.' in new and '"strings"' not in s:
        s = s.replace('import (\n', 'import (\n\t"strings"\n', 1)
    open(f,'w').write(s)
    r = subprocess.run('cd /verif && VERIF_REPO=/tmp/wt-c15 VERIF_TAG=c15m ./check C15 --tier '+tier, shell=True, capture_output=True, text=True)
    out = r.stdout + r.stderr
    keys = re.findall(r'key=(.*)', out)
    print(f'{name}: exit={r.returncode} violations={out.count("VIOLATION property")} keys={keys[:6]}')
    if r.returncode not in (0,1):
        print(out[-1500:])
subprocess.run(['git','-C',WT,'checkout','--','.'],check=True)
