---- MODULE MC_Apq_TTrace_1790424746 ----
EXTENDS Sequences, TLCExt, Toolbox, MC_Apq, Naturals, TLC

_expression ==
    LET MC_Apq_TEExpression == INSTANCE MC_Apq_TEExpression
    IN MC_Apq_TEExpression!expression
----

_trace ==
    LET MC_Apq_TETrace == INSTANCE MC_Apq_TETrace
    IN MC_Apq_TETrace!trace
----

_inv ==
    ~(
        TLCGet("level") = Len(_TETrace)
        /\
        cache = (("h:q1" :> "q1" @@ "h:q2" :> "q2"))
        /\
        cap = (2)
        /\
        act = ([text |-> "q2", ext |-> "pq", ver |-> "1", hash |-> "h:q1", mal |-> "-"])
        /\
        kind = ("lru")
        /\
        sent = ({})
        /\
        out = ([submit |-> "-", class |-> "mismatch", ops |-> <<>>])
        /\
        order = (<<"h:q1", "h:q2">>)
    )
----

_init ==
    /\ out = _TETrace[1].out
    /\ kind = _TETrace[1].kind
    /\ cap = _TETrace[1].cap
    /\ act = _TETrace[1].act
    /\ sent = _TETrace[1].sent
    /\ cache = _TETrace[1].cache
    /\ order = _TETrace[1].order
----

_next ==
    /\ \E i,j \in DOMAIN _TETrace:
        /\ \/ /\ j = i + 1
              /\ i = TLCGet("level")
        /\ out  = _TETrace[i].out
        /\ out' = _TETrace[j].out
        /\ kind  = _TETrace[i].kind
        /\ kind' = _TETrace[j].kind
        /\ cap  = _TETrace[i].cap
        /\ cap' = _TETrace[j].cap
        /\ act  = _TETrace[i].act
        /\ act' = _TETrace[j].act
        /\ sent  = _TETrace[i].sent
        /\ sent' = _TETrace[j].sent
        /\ cache  = _TETrace[i].cache
        /\ cache' = _TETrace[j].cache
        /\ order  = _TETrace[i].order
        /\ order' = _TETrace[j].order

\* Uncomment the ASSUME below to write the states of the error trace
\* to the given file in Json format. Note that you can pass any tuple
\* to `JsonSerialize`. For example, a sub-sequence of _TETrace.
    \* ASSUME
    \*     LET J == INSTANCE Json
    \*         IN J!JsonSerialize("MC_Apq_TTrace_1790424746.json", _TETrace)

=============================================================================

 Note that you can extract this module `MC_Apq_TEExpression`
  to a dedicated file to reuse `expression` (the module in the 
  dedicated `MC_Apq_TEExpression.tla` file takes precedence 
  over the module `MC_Apq_TEExpression` below).

---- MODULE MC_Apq_TEExpression ----
EXTENDS Sequences, TLCExt, Toolbox, MC_Apq, Naturals, TLC

expression == 
    [
        \* To hide variables of the `MC_Apq` spec from the error trace,
        \* remove the variables below.  The trace will be written in the order
        \* of the fields of this record.
        out |-> out
        ,kind |-> kind
        ,cap |-> cap
        ,act |-> act
        ,sent |-> sent
        ,cache |-> cache
        ,order |-> order
        
        \* Put additional constant-, state-, and action-level expressions here:
        \* ,_stateNumber |-> _TEPosition
        \* ,_outUnchanged |-> out = out'
        
        \* Format the `out` variable as Json value.
        \* ,_outJson |->
        \*     LET J == INSTANCE Json
        \*     IN J!ToJson(out)
        
        \* Lastly, you may build expressions over arbitrary sets of states by
        \* leveraging the _TETrace operator.  For example, this is how to
        \* count the number of times a spec variable changed up to the current
        \* state in the trace.
        \* ,_outModCount |->
        \*     LET F[s \in DOMAIN _TETrace] ==
        \*         IF s = 1 THEN 0
        \*         ELSE IF _TETrace[s].out # _TETrace[s-1].out
        \*             THEN 1 + F[s-1] ELSE F[s-1]
        \*     IN F[_TEPosition - 1]
    ]

=============================================================================



Parsing and semantic processing can take forever if the trace below is long.
 In this case, it is advised to uncomment the module below to deserialize the
 trace from a generated binary file.

\*
\*---- MODULE MC_Apq_TETrace ----
\*EXTENDS IOUtils, MC_Apq, TLC
\*
\*trace == IODeserialize("MC_Apq_TTrace_1790424746.bin", TRUE)
\*
\*=============================================================================
\*

---- MODULE MC_Apq_TETrace ----
EXTENDS MC_Apq, TLC

trace == 
    <<
    ([cache |-> <<>>,cap |-> 2,act |-> [text |-> "", ext |-> "init", ver |-> "-", hash |-> "-", mal |-> "-"],kind |-> "lru",sent |-> {},out |-> [submit |-> "-", class |-> "init", ops |-> <<>>],order |-> <<>>]),
    ([cache |-> ("h:q1" :> "q1"),cap |-> 2,act |-> [text |-> "q1", ext |-> "pq", ver |-> "1", hash |-> "h:q1", mal |-> "-"],kind |-> "lru",sent |-> {},out |-> [submit |-> "q1", class |-> "data", ops |-> <<[t |-> "q1", h |-> "h:q1", op |-> "add"]>>],order |-> <<"h:q1">>]),
    ([cache |-> ("h:q1" :> "q1" @@ "h:q2" :> "q2"),cap |-> 2,act |-> [text |-> "q2", ext |-> "pq", ver |-> "1", hash |-> "h:q2", mal |-> "-"],kind |-> "lru",sent |-> {},out |-> [submit |-> "q2", class |-> "data", ops |-> <<[t |-> "q2", h |-> "h:q2", op |-> "add"]>>],order |-> <<"h:q2", "h:q1">>]),
    ([cache |-> ("h:q1" :> "q1" @@ "h:q2" :> "q2"),cap |-> 2,act |-> [text |-> "q2", ext |-> "pq", ver |-> "1", hash |-> "h:q1", mal |-> "-"],kind |-> "lru",sent |-> {},out |-> [submit |-> "-", class |-> "mismatch", ops |-> <<>>],order |-> <<"h:q1", "h:q2">>])
    >>
----


=============================================================================

---- CONFIG MC_Apq_TTrace_1790424746 ----
CONSTANTS
    Texts <- QTexts
    Valid <- QValid
    HashOf <- QHash
    WrongHashes <- Wrong2
    Kinds <- BothKinds
    Caps <- Caps12
    MalKinds <- MalAll
    MalWithHash <- MalAllH
    BadVers <- VerAll
    History = FALSE

INVARIANT
    _inv

CHECK_DEADLOCK
    \* CHECK_DEADLOCK off because of PROPERTY or INVARIANT above.
    FALSE

INIT
    _init

NEXT
    _next

CONSTANT
    _TETrace <- _trace

ALIAS
    _expression
=============================================================================
\* Generated on Sat Sep 26 12:12:28 UTC 2026