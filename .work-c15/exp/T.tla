---- MODULE T ----
EXTENDS Integers, Sequences, TLC, Json
VARIABLE x
H(t) == "h:" \o t
Init == x = 0
Next == x < 2 /\ x' = x + 1
Emit == PrintT(ToJson([s |-> x, h |-> H("q1"), e |-> {<<"a","b">>}, z |-> <<>>, f |-> [k \in {"a"} |-> "v"], ef |-> [k \in {} |-> "v"]]))
====
