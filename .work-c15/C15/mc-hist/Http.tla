------------------------------- MODULE Http -------------------------------
(***************************************************************************)
(* C09 - HTTP: GET never mutates; status and content type follow the       *)
(* request outcome.  Decision part of the HTTP front end of gqlgen         *)
(* (graphql/handler/server.go + graphql/handler/transport/*.go +           *)
(* graphql/executor/executor.go).                                          *)
(*                                                                         *)
(* One behaviour = one HTTP request travelling through one server:         *)
(*                                                                         *)
(*   SelectTransport   Server.getTransport: first transport whose          *)
(*                     Supports(r) holds                                   *)
(*   Negotiate         determineResponseContentType + mergeHeaders +       *)
(*                     writeHeaders (GET, POST) / writeHeaders(rh) (others)*)
(*   ParseUrl          GET.Do: url.ParseQuery                              *)
(*   Decode            body / URL parameters -> RawParams                  *)
(*   CreateOpCtx       executor.CreateOperationContext: parse, validate,   *)
(*                     Operations.ForName, VariableValues                  *)
(*   GuardGET          GET.Do: op.Operation != ast.Query -> refuse         *)
(*   Dispatch          executor.DispatchOperation + responses(ctx)         *)
(*   Write             WriteHeader(status) + body                          *)
(*                                                                         *)
(* Two levels.  The ACTIONS are written like the code behaves              *)
(* (implementation level: the exact status / content type / body kind the  *)
(* tree produces; the three deviations D1-D3 found by this check were      *)
(* repaired in /repo and the actions now describe the repaired code).  The *)
(* PROPERTY is stated independently as a set of admissible answers         *)
(* (`Rules`, `Bodies`, `Named`) that demands only what the C09 statement   *)
(* demands; TLC checks that the implementation level satisfies the         *)
(* property on every request of the finite product, except in the states   *)
(* flagged as a deviation, where it checks that the deviation is real.     *)
(* The replay harness compares the REAL handler against the property level *)
(* (alarm) and against the implementation level (drift count, no alarm).   *)
(***************************************************************************)
EXTENDS Naturals, Sequences, FiniteSets, TLC, Json

CONSTANTS
  Servers,   \* set of [id, qc, ts]; ts = sequence of [k |-> kind, rh |-> setting]
  Methods,   \* request methods
  ReqCTs,    \* request Content-Type classes
  Accepts,   \* set of Accept headers = sequences of media-range tokens
  Docs,      \* set of documents = sequences of [k |-> kind, n |-> name]
  Slip       \* "none", or a deviation of a Supports method (negative configurations only)

VARIABLES
  srv,      \* the server (constant during a behaviour)
  hdr,      \* [m, ct, acc, up, carry] : header part of the request; carry = where the document travels
  dp,       \* [val, doc, opn]  : document part of the request
  src,      \* "inline" | "apq" : how the query text reaches the executor
  pc,       \* next step
  tix,      \* index of the selected transport, 0 = none
  neg,      \* [impl |-> content type the code sets, allowed |-> admissible set]
  dopn,     \* operationName after decoding
  sel,      \* index of the operation picked by CreateOperationContext, 0 = none
  executed, \* set of operation indices whose root fields were resolved
  cls,      \* outcome class
  out,      \* [st, ct, body] written by the code (implementation level)
  dev       \* "" or the name of the deviation this behaviour runs into (none open on the repaired tree)

vars == <<srv, hdr, dp, src, pc, tix, neg, dopn, sel, executed, cls, out, dev>>

-----------------------------------------------------------------------------
(* Vocabulary *)

TransportKinds == {"OPTIONS", "GET", "POST", "GRAPHQL", "FORM", "MULTIPART",
                   "SSE", "MIXED", "WS"}
Negotiating    == {"GET", "POST"}                 \* determineResponseContentType
Configured     == {"GRAPHQL", "FORM", "MULTIPART"} \* writeHeaders(ResponseHeaders)
JsonKinds      == Negotiating \cup Configured     \* single JSON response
Streaming      == {"SSE", "MIXED"}                \* outside the statement
(* ResponseHeaders settings:
     none       nil map
     json       {"Content-Type": ["application/json"]}
     gqlresp    {"Content-Type": ["application/graphql-response+json"]}
     lcjson     {"content-type": ["application/json"]}        (key case)
     other      {"X-Verif": ["1"]}                            (no content type)
     json+other {"Content-Type": ["application/json"], "X-Verif": ["1"]}    *)
RhSettings == {"none", "json", "gqlresp", "lcjson", "other", "json+other"}
RhCT(rh) == CASE rh \in {"json", "lcjson", "json+other"} -> "json"
              [] rh = "gqlresp" -> "gqlresp"
              [] OTHER -> ""
JsonTypes == {"json", "gqlresp"}  \* application/json, application/graphql-response+json
AcceptTokens == {"json", "gqlresp", "any", "appany", "other", "bad", "sse", "mixed"}
Validities == {"ok", "parse", "invalid", "noop", "varerr", "undecEnv", "undecVars"}
Unknown == "Zz"   \* an operationName no document defines

Min(S) == CHOOSE i \in S : \A j \in S : i <= j

-----------------------------------------------------------------------------
(* The request space *)

OpNames(d) == {""} \cup {d[i].n : i \in 1..Len(d)} \cup {Unknown}

DocParts ==
  UNION {{[val |-> v, doc |-> d, opn |-> o] : v \in {"ok", "invalid", "varerr"}, o \in OpNames(d)} : d \in Docs}
  \cup {[val |-> v, doc |-> <<>>, opn |-> o] : v \in {"parse", "noop"}, o \in {"", Unknown}}
  \cup {[val |-> v, doc |-> <<>>, opn |-> ""] : v \in {"undecEnv", "undecVars"}}

(* carry: where the request's document part travels.
     "url"   URL parameters only, no body
     "body"  the body only (encoded as the Content-Type class announces), no URL parameters
     "both"  URL parameters carry the document part AND the body carries BodyProbe, an anonymous
             mutation - so a transport that reads the wrong source runs something visible.
   A POST carries its document in the body. *)
Carries(m) == IF m = "POST" THEN {"body"} ELSE {"url", "body", "both"}
Hdrs == {h \in [m : Methods, ct : ReqCTs, acc : Accepts, up : BOOLEAN, carry : {"url", "body", "both"}] :
           h.carry \in Carries(h.m)}
BodyProbe == [val |-> "ok", doc |-> <<[k |-> "mutation", n |-> ""]>>, opn |-> ""]

(* No executing transport accepts a request that carries an Upgrade header or
   a method other than GET / POST (SelectTransport; the streaming transports
   take POST only), and the GET transport never reads a body.  For those
   headers (and for GET requests whose document is not in the URL alone) the
   document cannot influence the answer, so the product keeps only the probe documents - one anonymous or
   single named operation of each kind, valid, no operationName - which is
   what would run if a Supports method wrongly let such a request in. *)
ProbeParts == {p \in DocParts : p.val = "ok" /\ p.opn = "" /\ Len(p.doc) = 1}
DocPartsFor(h) == IF h.up \/ h.m \notin {"GET", "POST"} \/ (h.m = "GET" /\ h.carry # "url")
                  THEN ProbeParts ELSE DocParts

(* The query text can be delivered by hash (automatic persisted query) only
   where the carrier has an `extensions` parameter. *)
CanApq(h, d) == /\ d.val \notin {"undecEnv", "undecVars"}
                /\ \/ h.m = "GET" /\ h.carry \in {"url", "both"}
                   \/ h.m = "POST" /\ h.ct = "json"

-----------------------------------------------------------------------------
(* SelectTransport: the Supports methods *)

ParsedCT == IF hdr.ct \in {"absent", "bad"} THEN "err" ELSE hdr.ct   \* mime.ParseMediaType
AccHas(tok) == \E i \in 1..Len(hdr.acc) : hdr.acc[i] = tok           \* strings.Contains(Accept, ..)
PostWith(c) == hdr.m = "POST" /\ ParsedCT = c

Supports(k) ==
  CASE k = "OPTIONS"   -> hdr.m \in {"HEAD", "OPTIONS"}
    [] k = "GET"       -> ~hdr.up /\ hdr.m = "GET"
    [] k = "POST"      -> ~hdr.up /\ (PostWith("json") \/ (Slip = "post-legacy-type" /\ ParsedCT = "other"))
    [] k = "GRAPHQL"   -> ~hdr.up /\ (IF Slip = "graphql-no-method" THEN ParsedCT = "graphql" ELSE PostWith("graphql"))
    [] k = "FORM"      -> ~hdr.up /\ PostWith("form")
    [] k = "MULTIPART" -> ~hdr.up /\ PostWith("multipart")
    [] k = "SSE"       -> AccHas("sse") /\ PostWith("json")     \* no Upgrade test
    [] k = "MIXED"     -> AccHas("mixed") /\ PostWith("json")   \* no Upgrade test
    [] k = "WS"        -> hdr.up

FirstSupporting ==
  LET S == {i \in 1..Len(srv.ts) : Supports(srv.ts[i].k)}
  IN IF S = {} THEN 0 ELSE Min(S)

Kind == IF tix = 0 THEN "none" ELSE srv.ts[tix].k
Rh   == IF tix = 0 THEN "none" ELSE srv.ts[tix].rh

(* Decode source of the selected transport: GET.Do reads url.ParseQuery of
   the URL, every other transport reads the body.  Eff is the document part
   the selected transport gets to see: the request's own if it travels
   there, BodyProbe in the body of a "both" request, nothing otherwise (an
   empty query string is a document without operation; an empty body cannot
   be decoded). *)
DecodeSource(k) == IF k = "GET" THEN "url" ELSE "body"
Eff ==
  IF DecodeSource(Kind) = "url"
  THEN (IF hdr.carry \in {"url", "both"} THEN dp ELSE [val |-> "noop", doc |-> <<>>, opn |-> ""])
  ELSE CASE hdr.carry = "body" -> dp
         [] hdr.carry = "both" -> BodyProbe
         [] OTHER -> [val |-> "undecEnv", doc |-> <<>>, opn |-> ""]

-----------------------------------------------------------------------------
(* Negotiate *)

(* implementation level: determineResponseContentType - an explicit
   Content-Type wins; no Accept -> application/json; otherwise the FIRST
   recognised media range in list order (q-values are not looked at);
   nothing recognised -> application/graphql-response+json *)
RECURSIVE FirstRecognised(_, _)
FirstRecognised(a, i) ==
  IF i > Len(a) THEN "gqlresp"
  ELSE CASE a[i] \in {"any", "appany", "gqlresp"} -> "gqlresp"
         [] a[i] = "json" -> "json"
         [] OTHER -> FirstRecognised(a, i + 1)

ImplNegotiate(rh, a) ==
  IF RhCT(rh) # "" THEN RhCT(rh)
  ELSE IF a = <<>> THEN "json" ELSE FirstRecognised(a, 1)

(* writeHeaders(ResponseHeaders) of the transports that do not negotiate:
   the map is copied as is; without a Content-Type entry application/json
   is set (D2 repaired: 62f18b1; before, only an EMPTY map got the default
   and net/http sniffed text/plain otherwise) *)
ImplConfigured(rh) ==
  IF RhCT(rh) # "" THEN RhCT(rh) ELSE "json"

(* property level: the media types of a GraphQL response the Accept header
   admits; when it admits none of them (or is absent) the server may answer
   with either.  The order among several admitted types is left free. *)
Acceptable(a) ==
  LET S == {c \in JsonTypes : \E i \in 1..Len(a) : a[i] = c \/ a[i] \in {"any", "appany"}}
  IN IF S = {} THEN JsonTypes ELSE S

NegotiatedSet(rh, a) == IF RhCT(rh) # "" THEN {RhCT(rh)} ELSE Acceptable(a)
ConfiguredSet(rh)    == IF RhCT(rh) # "" THEN {RhCT(rh)} ELSE JsonTypes

-----------------------------------------------------------------------------
(* CreateOperationContext *)

(* implementation level: ast.OperationList.ForName *)
ForName(d, n) ==
  IF n = "" /\ Len(d) = 1 THEN 1
  ELSE LET S == {i \in 1..Len(d) : d[i].n = n} IN IF S = {} THEN 0 ELSE Min(S)

(* property level: GetOperation of the GraphQL specification - without a
   name the only operation of the document, with a name the operation of
   that name; 0 = the request names no operation *)
Named(d, n) ==
  IF n = "" THEN (IF Len(d) = 1 THEN 1 ELSE 0)
  ELSE LET S == {i \in 1..Len(d) : d[i].n = n} IN IF Cardinality(S) = 1 THEN Min(S) ELSE 0

-----------------------------------------------------------------------------
(* Implementation level answer, per outcome class *)

ImplStatus(k, c, ct) ==
  CASE c = "none"     -> 400                                  \* sendErrorf(w, 400, "transport not supported")
    [] c = "options"  -> IF hdr.m = "OPTIONS" THEN 200 ELSE 405
    [] c = "ws"       -> 0                                    \* failed handshake: not modelled
    [] c = "executed" -> 200
    [] c = "refused"  -> 406
    [] c = "undec"    -> IF k \in {"GET", "POST", "SSE", "MIXED"} THEN 400 ELSE 422
    [] c = "protoErr" ->
         IF k \in Negotiating THEN (IF ct = "gqlresp" THEN 400 ELSE 422)  \* statusForGraphQLResponse / statusFor
         ELSE IF k = "SSE" THEN 200                                       \* error travels inside the stream
         ELSE 422                                                         \* statusFor

ImplCT(k, c) ==
  CASE c = "none"    -> "json"                                            \* sendError (D1 repaired: adec2da)
    [] c = "options" -> "absent"
    [] c = "ws"      -> "unmodelled"
    [] k = "SSE"     -> IF c = "undec" THEN "json" ELSE "sse"
    [] k = "MIXED"   -> IF c = "executed" THEN "mixed" ELSE "json"
    [] OTHER -> neg.impl

ImplBody(k, c) ==
  CASE c = "none"    -> IF hdr.m = "HEAD" THEN "empty" ELSE "errors"
    [] c = "options" -> "empty"
    [] c = "ws"      -> "unmodelled"
    [] k \in Streaming /\ c \in {"executed", "protoErr"} ->
         IF k = "MIXED" /\ c = "protoErr" THEN "errors" ELSE "stream"
    [] c = "executed" -> "data"
    [] OTHER -> "errors"

-----------------------------------------------------------------------------
(* Property level: what the statement admits.                               *)
(* A rule [lo, hi, ct] admits a status in lo..hi together with the content  *)
(* type ct ("any" = no demand).                                             *)

Rule(lo, hi, c) == [lo |-> lo, hi |-> hi, ct |-> c]
AnyRule == Rule(0, 999, "any")

Rules ==
  CASE cls \in {"options", "ws"} -> {AnyRule}
    [] cls = "none" ->
         \* not stated: which 4xx, and - no transport, hence no configured
         \* headers and no negotiating code - which of the two GraphQL media
         \* types.  Stated: the body is a GraphQL response and is labelled as
         \* one.  HEAD has no body.
         IF hdr.m = "HEAD" THEN {AnyRule}
         ELSE {Rule(400, 499, c) : c \in JsonTypes}
    [] Kind \in Streaming ->
         \* text/event-stream and multipart/mixed answers are outside the
         \* statement, except: execution started => 200
         IF cls = "executed" THEN {Rule(200, 200, "any")} ELSE {AnyRule}
    [] cls = "executed" -> {Rule(200, 200, c) : c \in neg.allowed}
    [] cls = "protoErr" ->
         \* the client-error status defined for the media type:
         \* 422 with application/json, 400 with application/graphql-response+json.
         \* A transport that does not negotiate and was CONFIGURED with
         \* application/graphql-response+json is left free between the two.
         {r \in {Rule(422, 422, "json"), Rule(400, 400, "gqlresp")} : r.ct \in neg.allowed}
         \cup (IF Kind \in Configured /\ "gqlresp" \in neg.allowed
               THEN {Rule(422, 422, "gqlresp")} ELSE {})
    [] cls \in {"refused", "undec"} -> {Rule(400, 499, c) : c \in neg.allowed}

Bodies ==
  CASE cls \in {"options", "ws"} -> {"any"}
    [] cls = "none" -> IF hdr.m = "HEAD" THEN {"any"} ELSE {"errors"}
    [] Kind \in Streaming -> {"any"}
    [] cls = "executed" -> {"data"}
    [] OTHER -> {"errors"}

Matches(o, r) == /\ r.lo <= o.st /\ o.st <= r.hi
                 /\ r.ct = "any" \/ r.ct = o.ct
ImplMatches == (\E r \in Rules : Matches(out, r)) /\ ("any" \in Bodies \/ out.body \in Bodies)

-----------------------------------------------------------------------------
(* Actions *)

Init ==
  /\ srv \in Servers
  /\ hdr \in Hdrs
  /\ dp \in DocPartsFor(hdr)
  /\ src \in {"inline", "apq"}
  /\ src = "apq" => CanApq(hdr, dp)
  /\ pc = "select"
  /\ tix = 0
  /\ neg = [impl |-> "", allowed |-> {}]
  /\ dopn = ""
  /\ sel = 0
  /\ executed = {}
  /\ cls = ""
  /\ out = [st |-> 0, ct |-> "", body |-> ""]
  /\ dev = ""

SelectTransport ==
  /\ pc = "select"
  /\ tix' = FirstSupporting
  /\ LET k == IF tix' = 0 THEN "none" ELSE srv.ts[tix'].k IN
     /\ pc' = CASE k \in {"none", "OPTIONS", "WS"} -> "write"
                [] OTHER -> "negotiate"
     /\ cls' = CASE k = "none" -> "none" [] k = "OPTIONS" -> "options" [] k = "WS" -> "ws" [] OTHER -> ""
     /\ dev' = ""
  /\ UNCHANGED <<srv, hdr, dp, src, neg, dopn, sel, executed, out>>

(* GET.Do: url.ParseQuery, after the headers were written (D3 repaired:
   c2bb1a2; before, a failure was answered ahead of the headers) *)
ParseUrl ==
  /\ pc = "parseurl"
  /\ IF Eff.val = "undecEnv"
     THEN pc' = "write" /\ cls' = "undec"
     ELSE pc' = "decode" /\ cls' = cls
  /\ UNCHANGED <<srv, hdr, dp, src, tix, neg, dopn, sel, executed, out, dev>>

Negotiate ==
  /\ pc = "negotiate"
  /\ neg' = CASE Kind \in Negotiating -> [impl |-> ImplNegotiate(Rh, hdr.acc), allowed |-> NegotiatedSet(Rh, hdr.acc)]
              [] Kind \in Configured  -> [impl |-> ImplConfigured(Rh), allowed |-> ConfiguredSet(Rh)]
              [] OTHER                -> [impl |-> "json", allowed |-> {}]   \* SSE, MIXED: provisional application/json
  /\ pc' = IF Kind = "GET" THEN "parseurl" ELSE "decode"
  /\ UNCHANGED <<srv, hdr, dp, src, tix, dopn, sel, executed, cls, out, dev>>

(* application/graphql bodies carry nothing but the query text *)
Decode ==
  /\ pc = "decode"
  /\ IF Eff.val \in {"undecEnv", "undecVars"}
     THEN pc' = "write" /\ cls' = "undec" /\ dopn' = dopn
     ELSE pc' = "create" /\ cls' = cls /\ dopn' = (IF Kind = "GRAPHQL" THEN "" ELSE Eff.opn)
  /\ UNCHANGED <<srv, hdr, dp, src, tix, neg, sel, executed, out, dev>>

(* parse -> no operation -> validate -> ForName -> VariableValues; every
   failure carries GRAPHQL_PARSE_FAILED / GRAPHQL_VALIDATION_FAILED, i.e.
   errcode.KindProtocol *)
CreateOpCtx ==
  /\ pc = "create"
  /\ LET s == IF Eff.val \in {"parse", "noop", "invalid"} THEN 0 ELSE ForName(Eff.doc, dopn)
         ok == s # 0 /\ Eff.val = "ok"
     IN /\ sel' = (IF ok THEN s ELSE 0)
        /\ pc' = (IF ok THEN (IF Kind = "GET" THEN "guard" ELSE "dispatch") ELSE "write")
        /\ cls' = (IF ok THEN cls ELSE "protoErr")
  /\ UNCHANGED <<srv, hdr, dp, src, tix, neg, dopn, executed, out, dev>>

GuardGET ==
  /\ pc = "guard"
  /\ IF Eff.doc[sel].k # "query"
     THEN pc' = "write" /\ cls' = "refused"
     ELSE pc' = "dispatch" /\ cls' = cls
  /\ UNCHANGED <<srv, hdr, dp, src, tix, neg, dopn, sel, executed, out, dev>>

Dispatch ==
  /\ pc = "dispatch"
  /\ executed' = {sel}
  /\ cls' = "executed"
  /\ pc' = "write"
  /\ UNCHANGED <<srv, hdr, dp, src, tix, neg, dopn, sel, out, dev>>

Write ==
  /\ pc = "write"
  /\ out' = [st |-> ImplStatus(Kind, cls, neg.impl), ct |-> ImplCT(Kind, cls), body |-> ImplBody(Kind, cls)]
  /\ pc' = "done"
  /\ UNCHANGED <<srv, hdr, dp, src, tix, neg, dopn, sel, executed, cls, dev>>

Next == SelectTransport \/ ParseUrl \/ Negotiate \/ Decode \/ CreateOpCtx \/ GuardGET \/ Dispatch \/ Write

Spec == Init /\ [][Next]_vars

-----------------------------------------------------------------------------
(* The property C09, as invariants *)

Done == pc = "done"
Ok2xx(s) == 200 <= s /\ s <= 299

TypeOK ==
  /\ pc \in {"select", "parseurl", "negotiate", "decode", "create", "guard", "dispatch", "write", "done"}
  /\ tix \in 0..Len(srv.ts)
  /\ executed \subseteq 1..Len(Eff.doc)
  /\ cls \in {"", "none", "options", "ws", "undec", "protoErr", "refused", "executed"}

(* over GET only query operations are ever executed - whatever transport
   answered and wherever it read the document from *)
GetNeverMutates ==
  \A i \in executed : hdr.m = "GET" => Eff.doc[i].k = "query"

(* a refused GET ran nothing *)
RefusedRunsNothing ==
  cls \in {"refused", "protoErr", "undec", "none", "options", "ws"} => executed = {}

(* every transport executes exactly the operation the request names *)
ExecutesNamedOperation ==
  /\ \A i \in executed : i = Named(Eff.doc, dopn) /\ Eff.val = "ok"
  /\ Done /\ cls = "executed" => executed = {Named(Eff.doc, dopn)}

(* a GET selecting a mutation or subscription is refused *)
GetNonQueryRefused ==
  Done /\ Kind = "GET" /\ Eff.val = "ok" /\ Named(Eff.doc, dopn) # 0
       /\ Eff.doc[Named(Eff.doc, dopn)].k # "query"
    => cls = "refused" /\ ~Ok2xx(out.st)

(* no resolver has run for a request answered with a non-2xx status *)
Non2xxRanNothing == Done /\ ~Ok2xx(out.st) => executed = {}

(* a request whose execution started is answered 200 *)
ExecutedIs200 == Done /\ executed # {} => out.st = 200

(* parse / validation failure => the client-error status of the media type *)
ProtocolErrorStatus ==
  Done /\ cls = "protoErr" /\ Kind \in JsonKinds /\ dev = "" =>
    /\ out.ct = "json" => out.st = 422
    /\ out.ct = "gqlresp" /\ Kind \in Negotiating => out.st = 400
    /\ out.st \in 400..499

(* the Content-Type is the negotiated one; the body is a GraphQL response *)
ContentTypeNegotiated ==
  Done /\ Kind \in JsonKinds /\ dev = "" => out.ct \in neg.allowed /\ out.body \in {"data", "errors"}

(* the code's negotiation only ever picks a type the Accept header admits *)
NegotiationSound ==
  \A a \in Accepts : \A rh \in RhSettings : ImplNegotiate(rh, a) \in NegotiatedSet(rh, a)

(* implementation level within the property level, deviations excepted and real *)
ImplConforms == Done /\ dev = "" => ImplMatches
DeviationIsReal == Done /\ dev # "" => ~ImplMatches

-----------------------------------------------------------------------------
(* Export: one line per request when the answer is about to be written      *)

Export ==
  pc = "write" /\ pc' = "done" =>
    PrintT(ToJson([
      sv |-> srv.id, m |-> hdr.m, ct |-> hdr.ct, acc |-> hdr.acc, up |-> hdr.up,
      val |-> dp.val, doc |-> dp.doc, opn |-> dp.opn, src |-> src,
      carry |-> hdr.carry, esrc |-> DecodeSource(Kind), edoc |-> Eff.doc,
      tk |-> Kind, ti |-> tix, cls |-> cls,
      rules |-> Rules, bodies |-> Bodies, exec |-> executed,
      ist |-> out'.st, ict |-> out'.ct, ib |-> out'.body, dev |-> dev]))

=============================================================================
