---------------------------- MODULE MC_Pipeline ----------------------------
(* Exhaustive model of Pipeline: TLC chooses the server configuration      *)
(* (extension list x cache kind x suggestions on/off) at Init and the      *)
(* request of every client when it starts; requests may start at any time, *)
(* so earlier requests are the "history" (cache contents) of later ones.   *)
EXTENDS Pipeline, Json

CONSTANTS ExtChoice,   \* which extension lists: "one" | "small" | "full"
          ReqChoice    \* which request alphabet: "sched3" | "sched" | "small" | "full"

All  == [pm |-> TRUE,  cm |-> TRUE,  oi |-> TRUE,  ri |-> TRUE,  rf |-> TRUE,  fi |-> TRUE]
Icpt == [pm |-> FALSE, cm |-> FALSE, oi |-> TRUE,  ri |-> TRUE,  rf |-> TRUE,  fi |-> TRUE]
Muts == [pm |-> TRUE,  cm |-> TRUE,  oi |-> FALSE, ri |-> FALSE, rf |-> FALSE, fi |-> FALSE]
FiO  == [pm |-> FALSE, cm |-> FALSE, oi |-> FALSE, ri |-> FALSE, rf |-> FALSE, fi |-> TRUE]
Mix  == [pm |-> TRUE,  cm |-> FALSE, oi |-> TRUE,  ri |-> TRUE,  rf |-> FALSE, fi |-> FALSE]

ExtLists ==
  IF ExtChoice = "one" THEN {<<All>>}
  ELSE IF ExtChoice = "small" THEN {<<All>>, <<Icpt, Muts>>}
  ELSE {<<>>, <<All, All>>, <<Icpt, Muts>>, <<All, FiO, Mix>>, <<Mix, Muts, Icpt>>}

Caches == {[ck |-> "none", cn |-> 0], [ck |-> "map", cn |-> 0], [ck |-> "lru", cn |-> 1], [ck |-> "lru", cn |-> 2]}

Cfgs == {[exts |-> e, ck |-> c.ck, cn |-> c.cn, sugg |-> s] : e \in ExtLists, c \in Caches, s \in BOOLEAN}

R1 == <<[f |-> "a", sub |-> <<"a.b">>]>>
R2 == <<[f |-> "c", sub |-> <<>>]>>
NoRej == [k |-> "none", i |-> 0]
P(q, cls, opsel, vs, rej, rounds, roots) ==
  [q |-> q, cls |-> cls, opsel |-> opsel, vcls |-> vs, rej |-> rej, rounds |-> rounds, roots |-> roots]

\* the request alphabet of the property statement
Alphabet(exts) ==
  LET core == { P("Q1", "ok",   "found",    "good", NoRej, <<"data">>, R1),   \* valid
                P("Q2", "ok",   "found",    "good", NoRej, <<"data">>, R2),   \* multi-operation document, operation named
                P("Q1", "ok",   "notfound", "good", NoRej, <<"data">>, R1),   \* operation not found (same text as the valid one)
                P("Q1", "ok",   "found",    "bad",  NoRej, <<"data">>, R1),   \* bad variable (same text as the valid one)
                P("QU", "unk",  "found",    "good", NoRej, <<"data">>, R2),   \* unknown field
                P("QP", "perr", "found",    "good", NoRej, <<"data">>, <<>>) }  \* parse error
      more == { P("QN", "noop", "found",    "good", NoRej, <<"data">>, <<>>),  \* no operation
                P("QI", "inv",  "found",    "good", NoRej, <<"data">>, R2),    \* fails another rule
                P("QS", "ok",   "found",    "good", NoRej, <<"data", "nil">>, R2) }  \* subscription: one event, then end
      rejs == { P("Q1", "ok", "found", "good", [k |-> h, i |-> i], <<"data">>, R1) :
                  h \in {"pm", "cm"}, i \in {j \in 1..Len(exts) : exts[j]["pm"] \/ exts[j]["cm"]} }
      few  == { P("Q1", "ok",  "found",    "good", NoRej, <<"data">>, R1),
                P("Q2", "ok",  "found",    "good", NoRej, <<"data">>, R2),
                P("Q1", "ok",  "notfound", "good", NoRej, <<"data">>, R1),
                P("QU", "unk", "found",    "good", NoRej, <<"data">>, R2) }
      inv  == { P("QI", "inv", "found", "good", NoRej, <<"data">>, R2) }   \* fails a validation rule other than field existence
  IN  IF ReqChoice = "small" THEN core
      ELSE IF ReqChoice = "sched" THEN core \cup inv
      ELSE IF ReqChoice = "sched3" THEN few
      ELSE core \cup more \cup rejs

MCInit ==
  \E c \in Cfgs :
    /\ cfg   = c
    /\ arrs  = [NoArrs EXCEPT ![InitArr] =
                  IF RuleModel = "config" THEN (IF c.sugg THEN <<"NS">> ELSE <<"FOCT">>) ELSE <<"FOCT">>]
    /\ hdr   = [a |-> InitArr, n |-> 1]
    /\ cache = <<>>
    /\ rq    = [r \in Reqs |-> NoReq]
    /\ pc    = [r \in Reqs |-> "idle"]
    /\ todo  = [r \in Reqs |-> <<>>]
    /\ log   = [r \in Reqs |-> <<>>]
    /\ tmp   = [r \in Reqs |-> [s |-> <<>>, h |-> [a |-> InitArr, n |-> 0]]]
    /\ glog  = <<>>

AllOver == \A r \in Reqs : pc[r] \in {"done", "panicked"}

MCNext ==
  \/ \E r \in Reqs :
       \/ \E p \in Alphabet(cfg.exts) : Start(r, p)
       \/ Emit(r) \/ CacheGet(r) \/ RuleStep(r) \/ Validate(r) \/ CacheAdd(r)
  \/ (AllOver /\ UNCHANGED vars)

MCSpec == MCInit /\ [][MCNext]_vars

\* the order of cache operations is history: not part of the explored state
MCView == <<cfg, hdr, arrs, cache, rq, pc, todo, log, tmp>>

\* schedule export (replay): at the end of a behaviour print the global order
\* of cache operations with the outcome the model prescribes
LastD(s) == IF s = <<>> THEN "none" ELSE s[Len(s)].d
Export ==
  IF AllOver
  THEN PrintT(ToJson([ck |-> cfg.ck, cn |-> cfg.cn, sugg |-> cfg.sugg, glog |-> glog,
                      reqs |-> [r \in Reqs |-> [q |-> rq[r].q, cls |-> rq[r].cls, opsel |-> rq[r].opsel,
                                                vcls |-> rq[r].vcls, last |-> LastD(log[r])]]]))
  ELSE TRUE
=============================================================================
