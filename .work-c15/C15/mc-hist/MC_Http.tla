----------------------------- MODULE MC_Http -----------------------------
(* Finite instances of Http for TLC.  MC_Http.cfg = quick tier,            *)
(* MC_HttpFull.cfg = thorough tier.  The harness reads the server          *)
(* definitions from the SERVERS line printed below, so the servers it      *)
(* builds are the servers TLC checked.                                     *)
EXTENDS Http

T(k, rh) == [k |-> k, rh |-> rh]
O(k, n)  == [k |-> k, n |-> n]

(* every transport, the order of the (deprecated) NewDefaultServer extended
   by the remaining transports; no ResponseHeaders; query cache on *)
S1 == [id |-> "S1", qc |-> TRUE, ts |-> <<
        T("WS", "none"), T("OPTIONS", "none"), T("SSE", "none"), T("MIXED", "none"),
        T("GET", "none"), T("POST", "none"), T("GRAPHQL", "none"), T("FORM", "none"),
        T("MULTIPART", "none")>>]
(* POST shadows SSE / MIXED; explicit content types; no OPTIONS, no WS *)
S2 == [id |-> "S2", qc |-> FALSE, ts |-> <<
        T("GET", "gqlresp"), T("POST", "json"), T("SSE", "none"), T("MIXED", "none"),
        T("GRAPHQL", "gqlresp"), T("FORM", "lcjson"), T("MULTIPART", "json+other")>>]
(* ResponseHeaders without a Content-Type; OPTIONS before WS; reverse order *)
S3 == [id |-> "S3", qc |-> FALSE, ts |-> <<
        T("OPTIONS", "none"), T("MULTIPART", "other"), T("FORM", "other"), T("GRAPHQL", "other"),
        T("POST", "other"), T("GET", "other"), T("WS", "none")>>]
(* MIXED before SSE before POST; GET/POST explicit the other way round *)
S4 == [id |-> "S4", qc |-> TRUE, ts |-> <<
        T("MIXED", "none"), T("SSE", "none"), T("POST", "gqlresp"), T("GET", "json+other"),
        T("FORM", "gqlresp"), T("MULTIPART", "gqlresp"), T("GRAPHQL", "json"),
        T("OPTIONS", "none"), T("WS", "none")>>]
S5 == [id |-> "S5", qc |-> FALSE, ts |-> <<T("POST", "lcjson")>>]
S6 == [id |-> "S6", qc |-> FALSE, ts |-> <<>>]
(* POST first, then the other body transports, GET late: a Supports slip of a
   body transport captures requests that belong to GET (or to nobody) *)
S7 == [id |-> "S7", qc |-> TRUE, ts |-> <<
        T("POST", "none"), T("GRAPHQL", "none"), T("FORM", "none"), T("MULTIPART", "none"),
        T("GET", "none"), T("OPTIONS", "none")>>]

ServersQuick == {S1, S2, S3, S5, S7}
ServersFull  == {S1, S2, S3, S4, S5, S6, S7}

MethodsAll == {"GET", "POST", "HEAD", "OPTIONS", "PUT"}
ReqCTsAll  == {"absent", "json", "graphql", "form", "multipart", "other", "bad"}

AcceptsQuick == {<<>>, <<"json">>, <<"gqlresp">>, <<"any">>, <<"other">>,
                 <<"json", "gqlresp">>, <<"other", "gqlresp", "json">>,
                 <<"sse">>, <<"mixed", "json">>, <<"bad", "json">>}
AcceptsFull == AcceptsQuick \cup
                {<<"appany">>, <<"gqlresp", "json">>, <<"any", "json">>, <<"json", "any">>,
                 <<"bad">>, <<"sse", "json">>, <<"mixed">>, <<"other", "json">>,
                 <<"sse", "mixed">>, <<"other", "appany">>}

Kinds == {"query", "mutation", "subscription"}
DocsQuick == {<<O("query", "")>>, <<O("mutation", "")>>, <<O("subscription", "")>>,
              <<O("query", "A")>>, <<O("mutation", "A")>>,
              <<O("query", "A"), O("mutation", "B")>>, <<O("mutation", "A"), O("query", "B")>>,
              <<O("query", "A"), O("subscription", "B")>>, <<O("query", "A"), O("query", "B")>>,
              <<O("query", "A"), O("mutation", "B"), O("subscription", "C")>>}
Perm3 == {<<a, b, c>> : a \in Kinds, b \in Kinds, c \in Kinds}
DocsFull == {<<O(k, "")>> : k \in Kinds} \cup {<<O(k, "A")>> : k \in Kinds}
            \cup {<<O(a, "A"), O(b, "B")>> : a \in Kinds, b \in Kinds}
            \cup {<<O(p[1], "A"), O(p[2], "B"), O(p[3], "C")>> :
                    p \in {q \in Perm3 : q[1] # q[2] /\ q[2] # q[3] /\ q[1] # q[3]}}

ASSUME PrintT(ToJson([servers |-> ServersFull]))
=============================================================================
