\* C14, thorough tier, emission.  Symbolic machine integers: MAX = 2*H+1 = [2,1]  (Go: H = 2^62-1, MAX = math.MaxInt).
\* All operations with <= 4 selection nodes x {no custom cost, one slot, two slots, all slots uniform}.
\* Measured: 672,721 distinct states, 335,451 printed cases; 1 worker ~2 min.
CONSTANTS
  MaxH = 2
  MaxD = 1
  MaxSize = 4
  MaxCustom = 2
  Corpus = "gen"
  Emit = TRUE
SPECIFICATION Spec
ACTION_CONSTRAINT EmitEdge
CHECK_DEADLOCK FALSE
