\* C14, quick tier, emission of (input, outcome) pairs for the replay (-workers 1; the invariants are checked by MC_Complexity.cfg on the same state space).  Symbolic machine integers: MAX = 2*H+1 = [2,1]  (Go: H = 2^62-1, MAX = math.MaxInt).
\* All operations with <= 3 selection nodes x {no custom cost, one slot, two slots, all slots uniform}.
\* Measured: 54,447 distinct states, 27,097 printed cases (+1 schema line); 1 worker ~9-15 s.
CONSTANTS
  MaxH = 2
  MaxD = 1
  MaxSize = 3
  MaxCustom = 2
  Corpus = "gen"
  Emit = TRUE
SPECIFICATION Spec
ACTION_CONSTRAINT EmitEdge
CHECK_DEADLOCK FALSE
