---- MODULE T ----
EXTENDS Naturals, Sequences, TLC, Json
VARIABLES x
MapSeq(Op(_), q) == [i \in 1..Len(q) |-> Op(q[i])]
Init == x \in {1,2}
Next == /\ x < 3 /\ x' = x + 2
        /\ PrintT(ToJson([a |-> MapSeq(LAMBDA e: e+1, <<>>), b |-> MapSeq(LAMBDA e: [k |-> e, s |-> "q\"uo"], <<1,2>>), c |-> {3,4}, d |-> <<>>, e |-> [nul |-> "t"], f |-> (<<1,2>> = [i \in 1..2 |-> i]), g |-> (<<>> = [i \in 1..0 |-> i]) ]))
====
