INIT Init
NEXT Next
CHECK_DEADLOCK FALSE
