---- MODULE MC_Introspect_TTrace_1790424493 ----
EXTENDS Sequences, TLCExt, MC_Introspect, Toolbox, Naturals, TLC

_expression ==
    LET MC_Introspect_TEExpression == INSTANCE MC_Introspect_TEExpression
    IN MC_Introspect_TEExpression!expression
----

_trace ==
    LET MC_Introspect_TETrace == INSTANCE MC_Introspect_TETrace
    IN MC_Introspect_TETrace!trace
----

_inv ==
    ~(
        TLCGet("level") = Len(_TETrace)
        /\
        op = ([ext |-> "f", entries |-> <<>>])
        /\
        res = (<<>>)
        /\
        s = ([desc |-> "", query |-> "Query", mutation |-> "", subscription |-> "", types |-> <<[name |-> "Query", kind |-> "OBJECT", desc |-> "", fields |-> <<[name |-> "id", desc |-> "", type |-> [name |-> "ID", wrap |-> <<>>], args |-> <<>>, dep |-> [on |-> "f", reason |-> ""]]>>, ifaces |-> <<>>, members |-> <<>>, values |-> <<>>, inputs |-> <<>>, url |-> ""]>>, dirs |-> <<[name |-> "dd", desc |-> "", args |-> <<[name |-> "x", desc |-> "", type |-> [name |-> "Int", wrap |-> <<>>], dep |-> [on |-> "t", reason |-> ""], dflt |-> [t |-> "none", v |-> "", e |-> <<>>]]>>, rep |-> "t", locs |-> <<"FIELD_DEFINITION">>]>>])
        /\
        pc = ("done")
        /\
        gpc = ("idle")
        /\
        out = ([all |-> [types |-> <<[name |-> "Query", kind |-> "OBJECT", fields |-> [nul |-> "f", l |-> <<[name |-> "id", type |-> <<[name |-> "ID", kind |-> "SCALAR"]>>, args |-> <<>>, description |-> [v |-> "", nul |-> "t"], isDeprecated |-> "f", deprecationReason |-> [v |-> "", nul |-> "t"]]>>], description |-> [v |-> "", nul |-> "t"], specifiedByURL |-> [v |-> "", nul |-> "t"], interfaces |-> [nul |-> "f", l |-> <<>>], possibleTypes |-> [nul |-> "t", l |-> <<>>], enumValues |-> [nul |-> "t", l |-> <<>>], inputFields |-> [nul |-> "t", l |-> <<>>]]>>, description |-> [v |-> "", nul |-> "t"], queryType |-> "Query", mutationType |-> [v |-> "", nul |-> "t"], subscriptionType |-> [v |-> "", nul |-> "t"], directives |-> <<[name |-> "dd", args |-> <<[name |-> "x", type |-> <<[name |-> "Int", kind |-> "SCALAR"]>>, description |-> [v |-> "", nul |-> "t"], defaultValue |-> [nul |-> "t", val |-> [t |-> "none", v |-> "", e |-> <<>>]], isDeprecated |-> "f", deprecationReason |-> [v |-> "", nul |-> "t"]]>>, description |-> [v |-> "", nul |-> "t"], isRepeatable |-> "t", locations |-> <<"FIELD_DEFINITION">>]>>], cur |-> [types |-> <<[name |-> "Query", kind |-> "OBJECT", fields |-> [nul |-> "f", l |-> <<[name |-> "id", type |-> <<[name |-> "ID", kind |-> "SCALAR"]>>, args |-> <<>>, description |-> [v |-> "", nul |-> "t"], isDeprecated |-> "f", deprecationReason |-> [v |-> "", nul |-> "t"]]>>], description |-> [v |-> "", nul |-> "t"], specifiedByURL |-> [v |-> "", nul |-> "t"], interfaces |-> [nul |-> "f", l |-> <<>>], possibleTypes |-> [nul |-> "t", l |-> <<>>], enumValues |-> [nul |-> "t", l |-> <<>>], inputFields |-> [nul |-> "t", l |-> <<>>]]>>, description |-> [v |-> "", nul |-> "t"], queryType |-> "Query", mutationType |-> [v |-> "", nul |-> "t"], subscriptionType |-> [v |-> "", nul |-> "t"], directives |-> <<[name |-> "dd", args |-> <<>>, description |-> [v |-> "", nul |-> "t"], isRepeatable |-> "t", locations |-> <<"FIELD_DEFINITION">>]>>]])
        /\
        dis = ("unset")
    )
----

_init ==
    /\ op = _TETrace[1].op
    /\ out = _TETrace[1].out
    /\ s = _TETrace[1].s
    /\ pc = _TETrace[1].pc
    /\ res = _TETrace[1].res
    /\ dis = _TETrace[1].dis
    /\ gpc = _TETrace[1].gpc
----

_next ==
    /\ \E i,j \in DOMAIN _TETrace:
        /\ \/ /\ j = i + 1
              /\ i = TLCGet("level")
        /\ op  = _TETrace[i].op
        /\ op' = _TETrace[j].op
        /\ out  = _TETrace[i].out
        /\ out' = _TETrace[j].out
        /\ s  = _TETrace[i].s
        /\ s' = _TETrace[j].s
        /\ pc  = _TETrace[i].pc
        /\ pc' = _TETrace[j].pc
        /\ res  = _TETrace[i].res
        /\ res' = _TETrace[j].res
        /\ dis  = _TETrace[i].dis
        /\ dis' = _TETrace[j].dis
        /\ gpc  = _TETrace[i].gpc
        /\ gpc' = _TETrace[j].gpc

\* Uncomment the ASSUME below to write the states of the error trace
\* to the given file in Json format. Note that you can pass any tuple
\* to `JsonSerialize`. For example, a sub-sequence of _TETrace.
    \* ASSUME
    \*     LET J == INSTANCE Json
    \*         IN J!JsonSerialize("MC_Introspect_TTrace_1790424493.json", _TETrace)

=============================================================================

 Note that you can extract this module `MC_Introspect_TEExpression`
  to a dedicated file to reuse `expression` (the module in the 
  dedicated `MC_Introspect_TEExpression.tla` file takes precedence 
  over the module `MC_Introspect_TEExpression` below).

---- MODULE MC_Introspect_TEExpression ----
EXTENDS Sequences, TLCExt, MC_Introspect, Toolbox, Naturals, TLC

expression == 
    [
        \* To hide variables of the `MC_Introspect` spec from the error trace,
        \* remove the variables below.  The trace will be written in the order
        \* of the fields of this record.
        op |-> op
        ,out |-> out
        ,s |-> s
        ,pc |-> pc
        ,res |-> res
        ,dis |-> dis
        ,gpc |-> gpc
        
        \* Put additional constant-, state-, and action-level expressions here:
        \* ,_stateNumber |-> _TEPosition
        \* ,_opUnchanged |-> op = op'
        
        \* Format the `op` variable as Json value.
        \* ,_opJson |->
        \*     LET J == INSTANCE Json
        \*     IN J!ToJson(op)
        
        \* Lastly, you may build expressions over arbitrary sets of states by
        \* leveraging the _TETrace operator.  For example, this is how to
        \* count the number of times a spec variable changed up to the current
        \* state in the trace.
        \* ,_opModCount |->
        \*     LET F[s \in DOMAIN _TETrace] ==
        \*         IF s = 1 THEN 0
        \*         ELSE IF _TETrace[s].op # _TETrace[s-1].op
        \*             THEN 1 + F[s-1] ELSE F[s-1]
        \*     IN F[_TEPosition - 1]
    ]

=============================================================================



Parsing and semantic processing can take forever if the trace below is long.
 In this case, it is advised to uncomment the module below to deserialize the
 trace from a generated binary file.

\*
\*---- MODULE MC_Introspect_TETrace ----
\*EXTENDS IOUtils, MC_Introspect, TLC
\*
\*trace == IODeserialize("MC_Introspect_TTrace_1790424493.bin", TRUE)
\*
\*=============================================================================
\*

---- MODULE MC_Introspect_TETrace ----
EXTENDS MC_Introspect, TLC

trace == 
    <<
    ([op |-> [ext |-> "f", entries |-> <<>>],res |-> <<>>,s |-> [desc |-> "", query |-> "Query", mutation |-> "", subscription |-> "", types |-> <<[name |-> "Query", kind |-> "OBJECT", desc |-> "", fields |-> <<[name |-> "id", desc |-> "", type |-> [name |-> "ID", wrap |-> <<>>], args |-> <<>>, dep |-> [on |-> "f", reason |-> ""]]>>, ifaces |-> <<>>, members |-> <<>>, values |-> <<>>, inputs |-> <<>>, url |-> ""]>>, dirs |-> <<[name |-> "dd", desc |-> "", args |-> <<[name |-> "x", desc |-> "", type |-> [name |-> "Int", wrap |-> <<>>], dep |-> [on |-> "t", reason |-> ""], dflt |-> [t |-> "none", v |-> "", e |-> <<>>]]>>, rep |-> "t", locs |-> <<"FIELD_DEFINITION">>]>>],pc |-> "chosen",gpc |-> "idle",out |-> [all |-> <<>>, cur |-> <<>>],dis |-> "unset"]),
    ([op |-> [ext |-> "f", entries |-> <<>>],res |-> <<>>,s |-> [desc |-> "", query |-> "Query", mutation |-> "", subscription |-> "", types |-> <<[name |-> "Query", kind |-> "OBJECT", desc |-> "", fields |-> <<[name |-> "id", desc |-> "", type |-> [name |-> "ID", wrap |-> <<>>], args |-> <<>>, dep |-> [on |-> "f", reason |-> ""]]>>, ifaces |-> <<>>, members |-> <<>>, values |-> <<>>, inputs |-> <<>>, url |-> ""]>>, dirs |-> <<[name |-> "dd", desc |-> "", args |-> <<[name |-> "x", desc |-> "", type |-> [name |-> "Int", wrap |-> <<>>], dep |-> [on |-> "t", reason |-> ""], dflt |-> [t |-> "none", v |-> "", e |-> <<>>]]>>, rep |-> "t", locs |-> <<"FIELD_DEFINITION">>]>>],pc |-> "done",gpc |-> "idle",out |-> [all |-> [types |-> <<[name |-> "Query", kind |-> "OBJECT", fields |-> [nul |-> "f", l |-> <<[name |-> "id", type |-> <<[name |-> "ID", kind |-> "SCALAR"]>>, args |-> <<>>, description |-> [v |-> "", nul |-> "t"], isDeprecated |-> "f", deprecationReason |-> [v |-> "", nul |-> "t"]]>>], description |-> [v |-> "", nul |-> "t"], specifiedByURL |-> [v |-> "", nul |-> "t"], interfaces |-> [nul |-> "f", l |-> <<>>], possibleTypes |-> [nul |-> "t", l |-> <<>>], enumValues |-> [nul |-> "t", l |-> <<>>], inputFields |-> [nul |-> "t", l |-> <<>>]]>>, description |-> [v |-> "", nul |-> "t"], queryType |-> "Query", mutationType |-> [v |-> "", nul |-> "t"], subscriptionType |-> [v |-> "", nul |-> "t"], directives |-> <<[name |-> "dd", args |-> <<[name |-> "x", type |-> <<[name |-> "Int", kind |-> "SCALAR"]>>, description |-> [v |-> "", nul |-> "t"], defaultValue |-> [nul |-> "t", val |-> [t |-> "none", v |-> "", e |-> <<>>]], isDeprecated |-> "f", deprecationReason |-> [v |-> "", nul |-> "t"]]>>, description |-> [v |-> "", nul |-> "t"], isRepeatable |-> "t", locations |-> <<"FIELD_DEFINITION">>]>>], cur |-> [types |-> <<[name |-> "Query", kind |-> "OBJECT", fields |-> [nul |-> "f", l |-> <<[name |-> "id", type |-> <<[name |-> "ID", kind |-> "SCALAR"]>>, args |-> <<>>, description |-> [v |-> "", nul |-> "t"], isDeprecated |-> "f", deprecationReason |-> [v |-> "", nul |-> "t"]]>>], description |-> [v |-> "", nul |-> "t"], specifiedByURL |-> [v |-> "", nul |-> "t"], interfaces |-> [nul |-> "f", l |-> <<>>], possibleTypes |-> [nul |-> "t", l |-> <<>>], enumValues |-> [nul |-> "t", l |-> <<>>], inputFields |-> [nul |-> "t", l |-> <<>>]]>>, description |-> [v |-> "", nul |-> "t"], queryType |-> "Query", mutationType |-> [v |-> "", nul |-> "t"], subscriptionType |-> [v |-> "", nul |-> "t"], directives |-> <<[name |-> "dd", args |-> <<>>, description |-> [v |-> "", nul |-> "t"], isRepeatable |-> "t", locations |-> <<"FIELD_DEFINITION">>]>>]],dis |-> "unset"])
    >>
----


=============================================================================

---- CONFIG MC_Introspect_TTrace_1790424493 ----
CONSTANTS
    Big = FALSE
    Schemas <- MCSchemas
    Ops <- MCOps

INVARIANT
    _inv

CHECK_DEADLOCK
    \* CHECK_DEADLOCK off because of PROPERTY or INVARIANT above.
    FALSE

INIT
    _init

NEXT
    _next

CONSTANT
    _TETrace <- _trace

ALIAS
    _expression
=============================================================================
\* Generated on Sat Sep 26 12:08:16 UTC 2026